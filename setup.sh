#!/bin/sh
# offline bootstrap: everything needed is already in /venv; fall back to the local wheelhouse otherwise
HERE="$(cd "$(dirname "$0")" && pwd)"
PY=/venv/bin/python
# atheris (coverage-guided parts of C14 C15 C17) goes beside the checks; without it those parts report themselves as skipped
PYTHONPATH="$HERE/.deps" $PY -c "import atheris" 2>/dev/null || $PY -m pip install --no-index --find-links /opt/veriftools/wheels --target "$HERE/.deps" atheris >/dev/null 2>&1
$PY -c "import hypothesis, numpy, scipy, desolver" 2>/dev/null && { echo "deps ok"; exit 0; }
$PY -m pip install --no-index --find-links /opt/veriftools/wheels --target "$HERE/.deps" hypothesis 2>&1 | tail -1
PYTHONPATH="/repo:$HERE/.deps" $PY -c "import hypothesis, numpy, scipy, desolver" && echo "deps ok"
