"""Event functions rebuilt from JSON-able parameters, problems with exact trajectories for the event properties,
and the harness' own root finder for g along the exact trajectory."""
import math

import numpy as np
from hypothesis import strategies as st


class ExactProblem(object):
    """kinds:  const  y' = v                      y = y0 + v (t - t0)         (any method integrates it exactly)
               rot    y' = [[0, w], [-w, 0]] y      rotation with angular frequency w
               decay  y' = -k y (componentwise)
    """

    def __init__(self, p, t0):
        self.p = p
        self.t0 = float(t0)
        self.kind = p["kind"]
        self.y0 = np.asarray(p["y0"], dtype=np.float64)
        self.shape = self.y0.shape
        self.n = self.y0.size
        self.calls = 0
        if self.kind == "const":
            self.v = np.asarray(p["v"], dtype=np.float64)
        elif self.kind == "rot":
            self.w = float(p["w"])
        else:
            self.k = np.asarray(p["k"], dtype=np.float64)

    def __call__(self, t, y, **kw):
        self.calls += 1
        y = np.asarray(y)
        if self.kind == "const":
            return self.v.astype(y.dtype) + 0 * y
        if self.kind == "rot":
            return np.array([self.w * y[1], -self.w * y[0]], dtype=y.dtype)
        return (-self.k.astype(y.dtype)) * y

    def exact(self, t):
        d = float(t) - self.t0
        if self.kind == "const":
            return self.y0 + self.v * d
        if self.kind == "rot":
            c, s = math.cos(self.w * d), math.sin(self.w * d)
            return np.array([c * self.y0[0] + s * self.y0[1], -s * self.y0[0] + c * self.y0[1]])
        return self.y0 * np.exp(-self.k * d)

    def dexact(self, t):
        return np.asarray(self(t, self.exact(t)), dtype=np.float64)

    def rate(self):
        if self.kind == "const":
            return float(np.max(np.abs(self.v)) / (np.max(np.abs(self.y0)) + 1.0))
        if self.kind == "rot":
            return abs(self.w)
        return float(np.max(np.abs(self.k)))

    def scale(self):
        return float(np.max(np.abs(self.y0)) + 1.0)

    def lipschitz(self):
        return 0.0 if self.kind == "const" else self.rate()


class Event(object):
    """g(t, y[, dy]) = s (h - c);  h in {comp i, lin w.y, time, timeprod (t - r1)(t - r2), deriv i (requires_dstate)}"""

    def __init__(self, p):
        self.p = p
        self.s = float(p["s"])
        self.c = float(p["c"])
        self.kind = p["h"]
        self.direction = int(p.get("direction", 0))
        self.is_terminal = bool(p.get("terminal", False))
        if self.kind == "deriv":
            self.requires_dstate = True
        self.calls = 0
        self.fault_at = None      # C12: raise at the k-th call

    def h(self, t, y, dy=None):
        k = self.kind
        if k == "comp":
            return float(np.asarray(y).reshape(-1)[self.p["i"]])
        if k == "lin":
            return float(np.dot(np.asarray(self.p["w"], dtype=np.float64), np.asarray(y, dtype=np.float64).reshape(-1)))
        if k == "time":
            return float(t)
        if k == "timeprod":
            return (float(t) - self.p["r1"]) * (float(t) - self.p["r2"])
        if k == "timeodd":
            # an odd number of simple roots, close together: several crossings inside one step, net sign change over it
            return float(np.prod([(float(t) - r) / self.p["w"] for r in self.p["roots"]]))
        if k == "deriv":
            return float(np.asarray(dy).reshape(-1)[self.p["i"]])
        raise KeyError(k)

    def __call__(self, t, y, dy=None, **kw):
        self.calls += 1
        g = np.asarray(self.s * (self.h(t, y, dy) - self.c), dtype=np.asarray(y).dtype)
        ret = self.p.get("ret", "0d")
        if ret == "float":
            return float(g)
        if ret == "arr1":
            return g.reshape(1)
        if ret == "arr11":
            return g.reshape(1, 1)
        return g

    def g_exact(self, prob, t):
        y = prob.exact(t)
        return self.s * (self.h(t, y, prob.dexact(t) if self.kind == "deriv" else None) - self.c)

    def natural_scale(self, prob):
        k = self.kind
        if k in ("comp", "lin"):
            return prob.scale() * (1.0 if k == "comp" else float(np.sum(np.abs(self.p["w"]))) + 1e-300)
        if k == "time":
            return max(1.0, abs(prob.t0))
        if k == "timeprod":
            return max(1.0, abs(self.p["r1"] - self.p["r2"])) ** 2
        if k == "timeodd":
            return 1.0
        return prob.scale() * max(prob.rate(), 1e-3)

    def grad_norm(self):
        """|d h / d y| (Lipschitz constant of h in the state)"""
        if self.kind == "comp":
            return 1.0
        if self.kind == "lin":
            return float(np.sum(np.abs(self.p["w"])))
        return 0.0


def true_crossings(ev, prob, ta, tb, n=4000):
    """Strict sign changes of g along the exact trajectory between ta and tb (either order), located by bisection.
    Returns a list of (t_root, dg/dtau sign along the direction ta -> tb, |dg/dt|)."""
    ts = np.linspace(ta, tb, n + 1)
    gs = np.array([ev.g_exact(prob, t) for t in ts])
    out = []
    for i in range(n):
        if gs[i] == 0.0 and 0 < i:
            continue
        if gs[i] * gs[i + 1] < 0 or (gs[i + 1] == 0.0 and gs[i] != 0 and i + 2 <= n and gs[i] * gs[i + 2] < 0):
            lo, hi, glo = ts[i], ts[i + 1] if gs[i + 1] != 0 else ts[i + 2], gs[i]
            for _ in range(80):
                mid = 0.5 * (lo + hi)
                gm = ev.g_exact(prob, mid)
                if gm == 0.0:
                    lo = hi = mid
                    break
                if (gm < 0) == (glo < 0):
                    lo, glo = mid, gm
                else:
                    hi = mid
            root = 0.5 * (lo + hi)
            d = 1e-6 * max(1.0, abs(root), abs(tb - ta))
            slope = (ev.g_exact(prob, root + d) - ev.g_exact(prob, root - d)) / (2 * d)
            sgn = np.sign(gs[i + 1] - gs[i]) if gs[i + 1] != 0 else np.sign(-gs[i])
            out.append((float(root), int(sgn), abs(float(slope))))
    return out


# --------------------------------------------------------------------------------------------------
# strategies
# --------------------------------------------------------------------------------------------------
@st.composite
def exact_problem(draw, kinds=("const", "rot", "decay")):
    kind = draw(st.sampled_from(list(kinds)))
    q = st.integers(-8, 8).map(lambda k: k / 4.0)
    if kind == "const":
        n = draw(st.sampled_from([1, 2, 3]))
        v = [draw(st.sampled_from([1.0, -1.0, 0.5, 2.0, -0.25])) for _ in range(n)]
        return dict(kind=kind, y0=draw(st.lists(q, min_size=n, max_size=n)), v=v)
    if kind == "rot":
        y0 = [draw(st.sampled_from([1.0, -1.0, 0.5, 2.0])), draw(st.sampled_from([0.0, 1.0, -0.5]))]
        return dict(kind=kind, y0=y0, w=draw(st.sampled_from([1.0, 2.0, 0.5, 3.0, -1.5])))
    n = draw(st.sampled_from([1, 2]))
    return dict(kind=kind, y0=[draw(st.sampled_from([1.0, -2.0, 0.5])) for _ in range(n)], k=[draw(st.sampled_from([0.5, 1.0, -0.3])) for _ in range(n)])


@st.composite
def event_params(draw, prob, t0, tf, terminal=None, allow_deriv=True):
    """an event whose threshold is placed at a value the exact trajectory takes strictly inside the span
    (so a transversal crossing exists), or - for the no-crossing class - outside the range of h."""
    P = ExactProblem(prob, t0)
    n = P.n
    kinds = ["comp", "comp", "lin", "time"] + (["deriv"] if allow_deriv and prob["kind"] != "const" else []) + ["timeprod"]
    kind = draw(st.sampled_from(kinds))
    p = dict(h=kind, s=draw(st.sampled_from([1.0, 1.0, 10.0, 1e3, 1e6, 1e-3, 1e-6])) * draw(st.sampled_from([1.0, -1.0])),
             direction=draw(st.sampled_from([0, 0, 1, -1])), terminal=bool(draw(st.booleans()) if terminal is None else terminal),
             # what the event function returns: a 0-d array, a Python float, or an array of shape (1,) / (1, 1) as `y - c` gives
             # for a one-component state
             ret=draw(st.sampled_from(["0d", "0d", "0d", "float", "arr1", "arr1", "arr11"])))
    if kind == "comp":
        p["i"] = draw(st.integers(0, n - 1))
    elif kind == "lin":
        p["w"] = [draw(st.sampled_from([1.0, -1.0, 0.5, 2.0])) for _ in range(n)]
    elif kind == "deriv":
        p["i"] = draw(st.integers(0, n - 1))
    frac = draw(st.sampled_from([0.5, 0.3, 0.7, 0.25, 0.125, 0.9, 0.61803]))
    tc = t0 + frac * (tf - t0)
    if kind == "timeprod":
        frac2 = draw(st.sampled_from([0.2, 0.45, 0.8]))
        p["r1"], p["r2"], p["c"] = tc, t0 + frac2 * (tf - t0) + (0.05 * (tf - t0) if abs(frac2 - frac) < 1e-9 else 0.0), 0.0
        return p
    tmp = Event(dict(p, c=0.0))
    p["c"] = tmp.h(tc, P.exact(tc), P.dexact(tc) if kind == "deriv" else None)
    return p
