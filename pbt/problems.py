"""Right-hand sides and problems reconstructed deterministically from JSON-able parameters.

prog : smooth nonlinear, time-dependent f(t, y) of arbitrary state shape, no known solution
           f = s(t) (P v + Q tanh(R v)) + c cos(w2 t) u,   s(t) = 1 + a sin(w t),  v = y.ravel()
lin  : y' = A y  (exact solution by expm in float64 / Pade in longdouble)
man  : manufactured  f(t, y) = y*'(t) + G(t, y) - G(t, y*(t)),  y*_i = amp_i sin(om_i t + ph_i) + off_i,  G a `prog`
"""
import numpy as np
from hypothesis import strategies as st

LD = np.longdouble


def _arr(x, dtype):
    return np.asarray(x, dtype=dtype)


class Prog(object):
    def __init__(self, p):
        self.p = p
        self.shape = tuple(p["shape"])
        self.n = int(np.prod(self.shape)) if self.shape else 1
        self._cache = {}
        self.calls = 0

    def _mats(self, dtype):
        key = np.dtype(dtype).name
        if key not in self._cache:
            p = self.p
            self._cache[key] = tuple(_arr(p[k], dtype).reshape((self.n, self.n)) for k in ("P", "Q", "R")) + (_arr(p["u"], dtype).reshape(self.n),)
        return self._cache[key]

    def __call__(self, t, y, **kwargs):
        self.calls += 1
        y = np.asarray(y)
        dtype = y.dtype
        P, Q, R, u = self._mats(dtype)
        p = self.p
        t = dtype.type(t)
        v = y.reshape(self.n)
        s = 1 + dtype.type(p["a"]) * np.sin(dtype.type(p["w"]) * t)
        out = s * (P @ v + Q @ np.tanh(R @ v)) + dtype.type(p["c"]) * np.cos(dtype.type(p["w2"]) * t) * u
        return out.reshape(self.shape).astype(dtype, copy=False)

    def jac(self, t, y, **kwargs):
        y = np.asarray(y)
        dtype = y.dtype
        P, Q, R, u = self._mats(dtype)
        p = self.p
        t = dtype.type(t)
        v = y.reshape(self.n)
        s = 1 + dtype.type(p["a"]) * np.sin(dtype.type(p["w"]) * t)
        J = s * (P + Q @ (np.diag(1 - np.tanh(R @ v) ** 2) @ R))
        return J.reshape(self.shape + self.shape)

    def lipschitz(self):
        P, Q, R, u = self._mats(np.float64)
        ninf = lambda M: float(np.max(np.sum(np.abs(M), axis=1))) if M.size else 0.0
        return (1 + abs(self.p["a"])) * (ninf(P) + ninf(Q) * ninf(R))

    def magnitude(self, ymax):
        """bound on the size of the terms summed when evaluating f at |y|_inf <= ymax (for rounding models)"""
        P, Q, R, u = self._mats(np.float64)
        ninf = lambda M: float(np.max(np.sum(np.abs(M), axis=1))) if M.size else 0.0
        return (1 + abs(self.p["a"])) * (ninf(P) * ymax + ninf(Q)) + abs(self.p["c"]) * float(np.max(np.abs(u)) if u.size else 0.0)

    @property
    def nonlinear(self):
        return bool(np.any(np.asarray(self.p["Q"]) != 0) and np.any(np.asarray(self.p["R"]) != 0))

    @property
    def time_dependent(self):
        return bool((self.p["a"] != 0 and self.p["w"] != 0) or (self.p["c"] != 0 and self.p["w2"] != 0 and np.any(np.asarray(self.p["u"]) != 0)))


_frac = st.integers(-8, 8).map(lambda k: k / 8.0)

SHAPES = [[1], [2], [3], [4], [2, 2], [2, 1, 2], [6]]


@st.composite
def prog_params(draw, shapes=None, max_n=6):
    shape = draw(st.sampled_from([s for s in (shapes or SHAPES) if int(np.prod(s)) <= max_n]))
    n = int(np.prod(shape))
    mat = st.lists(st.lists(_frac, min_size=n, max_size=n), min_size=n, max_size=n)
    return dict(kind="prog", shape=shape, P=draw(mat), Q=draw(mat), R=draw(mat),
                u=draw(st.lists(_frac, min_size=n, max_size=n)),
                a=draw(st.sampled_from([0.0, 0.5, -0.25, 0.75])), w=draw(st.sampled_from([0.0, 1.0, 2.5, 0.3])),
                c=draw(st.sampled_from([0.0, 1.0, -0.5])), w2=draw(st.sampled_from([0.0, 1.0, 1.7])))


@st.composite
def state(draw, shape, scale=2.0):
    n = int(np.prod(shape)) if shape else 1
    return draw(st.lists(st.integers(-16, 16).map(lambda k: k * scale / 16.0), min_size=n, max_size=n))


# --------------------------------------------------------------------------------------------------
class Man(object):
    """Manufactured problem with exact solution y*_i(t) = amp_i sin(om_i t + ph_i) + off_i :
           f(t, y) = y*'(t) + G(t, y) - G(t, y*(t)),   G a Prog on the flat state.
    Generic in all elementary differentials (nonlinear, non-autonomous, coupled)."""

    def __init__(self, p):
        self.p = p
        self.G = Prog(p["G"])
        self.shape = self.G.shape
        self.n = self.G.n
        self.calls = 0

    def _c(self, dtype):
        p = self.p
        return tuple(np.asarray(p[k], dtype=dtype).reshape(self.shape) for k in ("amp", "om", "ph", "off"))

    def exact(self, t, dtype=LD):
        amp, om, ph, off = self._c(dtype)
        t = np.dtype(dtype).type(t)
        return amp * np.sin(om * t + ph) + off

    def dexact(self, t, dtype=LD):
        amp, om, ph, off = self._c(dtype)
        t = np.dtype(dtype).type(t)
        return amp * om * np.cos(om * t + ph)

    def __call__(self, t, y, **kwargs):
        self.calls += 1
        y = np.asarray(y)
        dtype = y.dtype
        ys = self.exact(t, dtype)
        return (self.dexact(t, dtype) + self.G(t, y) - self.G(t, ys)).astype(dtype, copy=False)

    def jac(self, t, y, **kwargs):
        return self.G.jac(t, y)

    def lipschitz(self):
        return self.G.lipschitz()

    def scale(self):
        return float(np.max(np.abs(self.p["amp"])) + np.max(np.abs(self.p["off"])))

    def max_freq(self):
        return float(max(np.max(np.abs(self.p["om"])), abs(self.p["G"]["w"]), abs(self.p["G"]["w2"])))

    @property
    def nonlinear(self):
        return self.G.nonlinear

    @property
    def time_dependent(self):
        return True


@st.composite
def man_params(draw, dims=(1, 2, 3, 4), gscale=1.0):
    n = draw(st.sampled_from(list(dims)))
    G = draw(prog_params(shapes=[[n]]))
    if gscale != 1.0:
        for k in ("P", "Q"):
            G[k] = [[x * gscale for x in row] for row in G[k]]
    q = st.integers(1, 8).map(lambda k: k / 4.0)
    return dict(kind="man", G=G,
                amp=draw(st.lists(q, min_size=n, max_size=n)),
                om=draw(st.lists(st.integers(1, 12).map(lambda k: k / 4.0), min_size=n, max_size=n)),
                ph=draw(st.lists(st.integers(0, 7).map(lambda k: k * 0.75), min_size=n, max_size=n)),
                off=draw(st.lists(st.integers(-4, 4).map(lambda k: k / 4.0), min_size=n, max_size=n)))


# --------------------------------------------------------------------------------------------------
class Sep(object):
    """Separable mechanical problem with exact solution, state (q, p) stacked along axis 0 (q first: the default
    kick mask of the splitting integrators updates the second half in the kick sub-steps):
        q' = dT/dp(p)                        T(p) = 1/2 p.M p  + tq/4 sum p_i^4
        p' = p*'(t) + W(q, t) - W(q*(t), t)  W(q,t) = -(1 + a sin(w t)) (K q + b q^3)
    p*_i = alpha_i cos(om_i t + ph_i); q* = q0 + int dT/dp(p*) in closed form when tq == 0 (M p* integrates to sines).
    With forced=False: a = 0 and the reference is not closed form (only used where invariants are needed).
    """

    def __init__(self, p):
        self.p = p
        self.d = len(p["alpha"])
        self.shape = (2 * self.d,)
        self.n = 2 * self.d
        self.calls = 0

    def _c(self, dtype):
        p = self.p
        d = self.d
        return (np.asarray(p["M"], dtype=dtype).reshape(d, d), np.asarray(p["K"], dtype=dtype).reshape(d, d),
                np.asarray(p["alpha"], dtype=dtype), np.asarray(p["om"], dtype=dtype), np.asarray(p["ph"], dtype=dtype),
                np.asarray(p["q0"], dtype=dtype))

    def exact(self, t, dtype=LD):
        M, K, al, om, ph, q0 = self._c(dtype)
        t = np.dtype(dtype).type(t)
        ps = al * np.cos(om * t + ph)
        qs = q0 + M @ (al / om * np.sin(om * t + ph))
        return np.concatenate([qs, ps])

    def W(self, q, t, dtype):
        M, K, al, om, ph, q0 = self._c(dtype)
        T = np.dtype(dtype).type
        s = 1 + T(self.p["a"]) * np.sin(T(self.p["w"]) * t)
        return -s * (K @ q + T(self.p["b"]) * q ** 3)

    def __call__(self, t, y, **kwargs):
        self.calls += 1
        y = np.asarray(y)
        dtype = y.dtype
        d = self.d
        M, K, al, om, ph, q0 = self._c(dtype)
        t = dtype.type(t)
        q, p = y[:d], y[d:]
        ys = self.exact(t, dtype)
        dps = -al * om * np.sin(om * t + ph)
        dq = M @ p
        dp = dps + self.W(q, t, dtype) - self.W(ys[:d], t, dtype)
        return np.concatenate([dq, dp]).astype(dtype, copy=False)

    def lipschitz(self):
        M, K, al, om, ph, q0 = self._c(np.float64)
        ninf = lambda A: float(np.max(np.sum(np.abs(A), axis=1)))
        qmax = float(np.max(np.abs(q0)) + ninf(M) * np.max(np.abs(al / om))) + 1.0
        return max(ninf(M), (1 + abs(self.p["a"])) * (ninf(K) + 3 * abs(self.p["b"]) * qmax ** 2))

    def scale(self):
        return float(np.max(np.abs(self.exact(0.0, np.float64))) + 1.0)

    def max_freq(self):
        return float(max(np.max(np.abs(self.p["om"])), abs(self.p["w"])))

    nonlinear = True
    time_dependent = True


@st.composite
def sep_params(draw, dims=(1, 2)):
    d = draw(st.sampled_from(list(dims)))
    fr = st.integers(-4, 4).map(lambda k: k / 4.0)
    # symmetric positive definite M and K = I + small symmetric part
    def spd():
        off = draw(fr) / 4.0 if d == 2 else 0.0
        diag = [1.0 + abs(draw(fr)) for _ in range(d)]
        if d == 1:
            return [[diag[0]]]
        return [[diag[0], off], [off, diag[1]]]
    return dict(kind="sep", M=spd(), K=spd(), b=draw(st.sampled_from([0.0, 0.5, 1.0])),
                a=draw(st.sampled_from([0.0, 0.5, -0.25])), w=draw(st.sampled_from([1.0, 2.5, 0.3])),
                alpha=draw(st.lists(st.integers(1, 6).map(lambda k: k / 4.0), min_size=d, max_size=d)),
                om=draw(st.lists(st.integers(2, 10).map(lambda k: k / 4.0), min_size=d, max_size=d)),
                ph=draw(st.lists(st.integers(0, 7).map(lambda k: k * 0.75), min_size=d, max_size=d)),
                q0=draw(st.lists(fr, min_size=d, max_size=d)))


def build(p):
    return {"prog": Prog, "man": Man, "sep": Sep}[p["kind"]](p)


# --------------------------------------------------------------------------------------------------
class Lin(object):
    """y' = A y, exact solution through expm (float64).
    The matrix is scaled so that the logarithmic norms of A and -A satisfy mu * horizon <= 3 (no blow-up over the
    span in either direction of time)."""

    def __init__(self, p):
        import scipy.linalg
        self.p = p
        A = np.asarray(p["A"], dtype=np.float64)
        n = A.shape[0]
        # integration may run in either direction: bound the growth rate of both e^{At} and e^{-At}
        ev = np.linalg.eigvalsh((A + A.T) / 2)
        rho = float(np.max(np.abs(ev)))
        lim = 3.0 / max(p.get("horizon", 1.0), 1e-9)
        if rho > lim:
            A = A * (lim / rho)
            rho = lim
        self.A = A
        self.mu = rho
        self.shape = (n,)
        self.n = n
        self.calls = 0
        self._expm = scipy.linalg.expm

    def __call__(self, t, y, **kw):
        self.calls += 1
        y = np.asarray(y)
        return (self.A.astype(y.dtype) @ y).astype(y.dtype, copy=False)

    def jac(self, t, y, **kw):
        return self.A.astype(np.asarray(y).dtype)

    def exact(self, t, t0, y0):
        return self._expm(self.A * (float(t) - float(t0))) @ np.asarray(y0, dtype=np.float64)

    def amplification(self, T):
        """bound on the growth of perturbations over a span of length T (2-norm): exp(max(mu, 0) T)"""
        return float(np.exp(max(self.mu, 0.0) * abs(T)))

    def lipschitz(self):
        return float(np.linalg.norm(self.A, 2))

    nonlinear = False
    time_dependent = False


@st.composite
def lin_params(draw, dims=(1, 2, 3), horizon=10.0):
    n = draw(st.sampled_from(list(dims)))
    A = draw(st.lists(st.lists(st.integers(-8, 8).map(lambda k: k / 4.0), min_size=n, max_size=n), min_size=n, max_size=n))
    return dict(kind="lin", A=A, horizon=horizon)


def build(p):
    return {"prog": Prog, "man": Man, "sep": Sep, "lin": Lin}[p["kind"]](p)
