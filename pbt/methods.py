"""Enumeration and classification of the shipped integration methods (by introspection, at run time)."""
import functools

import numpy as np


def _lists():
    from desolver import integrators as I
    return list(I.explicit_methods()), list(I.implicit_methods())


@functools.lru_cache(None)
def names(kind="all"):
    ex, im = _lists()
    out = []
    for c in ex + im:
        fam = family(c)
        if kind == "all" or kind == fam or (kind == "rk" and fam != "splitting") or \
                (kind == "explicit" and c in ex) or (kind == "implicit" and c in im) or \
                (kind == "explicit_rk" and c in ex and fam != "splitting") or \
                (kind == "adaptive" and fam in ("embedded", "implicit_embedded")) or \
                (kind == "fixed" and fam in ("explicit_fixed", "splitting", "implicit_fixed")) or \
                (kind == "symplectic" and getattr(c, "symplectic", False)):
            out.append(c.__name__)
    return tuple(out)


def family(cls):
    from desolver import integrators as I
    if isinstance(cls, str):
        cls = get(cls)
    if issubclass(cls, I.RichardsonIntegratorTemplate):
        return "richardson"
    if issubclass(cls, I.ExplicitSymplecticIntegrator):
        return "splitting"
    A = np.asarray(cls.tableau_intermediate)[:, 1:]
    explicit = bool(np.all(np.triu(A) == 0))
    embedded = np.asarray(cls.tableau_final).shape[0] == 2
    if explicit:
        return "embedded" if embedded else "explicit_fixed"
    return "implicit_embedded" if embedded else "implicit_fixed"


_rich_cache = {}


def get(name):
    """'RK4Solver' -> class;  'Rich3:RK4Solver' -> Richardson wrapper with 3 levels (cached per process)."""
    from desolver import integrators as I
    if name.startswith("Rich"):
        k, base = name[4:].split(":", 1)
        key = (int(k), base)
        if key not in _rich_cache:
            _rich_cache[key] = I.generate_richardson_integrator(get(base), int(k))
        return _rich_cache[key]
    if name.startswith("Derived:"):
        # a user-defined method: a subclass of a shipped explicit class with a tableau of its own (the zero entries of the strictly
        # lower triangle filled in, nodes = row sums); the parent class has been instantiated before the subclass exists
        if name not in _rich_cache:
            base = get(name.split(":", 1)[1])
            base(sys_dim=(1,), dtype=np.float64, rtol=1e-6, atol=1e-6)
            ti = np.array(base.tableau_intermediate, dtype=np.float64, copy=True)
            A = ti[:, 1:]
            for i in range(A.shape[0]):
                for j in range(i):
                    if A[i, j] == 0:
                        A[i, j] = 1.0 / (8 * (i + j + 2))
            ti[:, 0] = A.sum(axis=1)
            _rich_cache[name] = type("Derived" + base.__name__, (base,), dict(tableau_intermediate=ti))
        return _rich_cache[name]
    ex, im = _lists()
    for c in ex + im:
        if c.__name__ == name:
            return c
    raise KeyError(name)


def order(name):
    if name.startswith("Rich"):
        return float(get(name.split(":", 1)[1]).__order__)
    return float(get(name).__order__)


def tableau(name):
    """(c, A, B) with B the rows of weights (row 0 propagates), as float64 arrays from the *class*."""
    cls = get(name)
    ti = np.asarray(cls.tableau_intermediate, dtype=np.float64)
    tf = np.asarray(cls.tableau_final, dtype=np.float64)
    return ti[:, 0].copy(), ti[:, 1:].copy(), tf[:, 1:].copy()


def is_implicit(name):
    return family(name.split(":", 1)[1] if name.startswith("Rich") else name).startswith("implicit")


def is_symplectic(name):
    return bool(getattr(get(name), "symplectic", False))


DTYPES = {"float32": np.float32, "float64": np.float64, "longdouble": np.longdouble, "float16": np.float16}


def wider(dtname):
    return np.float64 if dtname == "float32" else np.longdouble
