"""Runner core: sharding, seeding, known-findings matching, collect-then-shrink, evidence, exit codes.

A property module (pbt/props/cXX.py) exposes

    ID, LEVEL, RULE, ASSUMPTIONS
    parts(tier) -> list[Part]
    check(case) -> (list[V], info)        pure function of a JSON-able case
                   info = {"nontrivial": bool, "labels": [str, ...]}

Generators only build cases; check() rebuilds every callable from the case, so a replay file is just
the case.  Exit codes: 0 held, 1 VIOLATION, 2 harness error / inconclusive.
"""
import collections
import hashlib
import importlib
import json
import math
import multiprocessing
import os
import signal
import sys
import time
import traceback

VERIF = os.path.dirname(os.path.dirname(os.path.abspath(__file__)))
REPO = os.environ.get("VERIF_REPO", "/repo")
NPROC = int(os.environ.get("VERIF_NPROC", "16"))
# mutant / sensitivity runs write their evidence and replay files elsewhere so that /verif/evidence only ever
# describes runs against /repo itself
SCRATCH = os.environ.get("VERIF_SCRATCH")
OUT_ROOT = os.path.join(SCRATCH, "out") if SCRATCH else os.path.join(VERIF, "out")
EVID_ROOT = os.path.join(SCRATCH, "evidence") if SCRATCH else os.path.join(VERIF, "evidence")


# --------------------------------------------------------------------------------------------------
# data types
# --------------------------------------------------------------------------------------------------
class V(object):
    """A violation of sub-check `sub`; `sig` is a coarse signature used for bucketing, `attrs` is what
    known-findings are matched against."""

    def __init__(self, sub, msg, sig="", **attrs):
        self.sub = sub
        self.msg = msg
        self.sig = str(sig)
        self.attrs = attrs

    @property
    def bucket(self):
        return "{}|{}".format(self.sub, self.sig)

    def to_json(self):
        return dict(sub=self.sub, sig=self.sig, msg=self.msg, attrs=jsonable(self.attrs))

    def __repr__(self):
        return "V({}: {})".format(self.bucket, self.msg)


class Part(object):
    """One generator of cases for a property.

    strategy  : hypothesis strategy producing JSON-able cases (or None)
    enumerate : callable () -> iterable of cases, a finite deterministic enumeration (or None)
    examples  : total number of generated examples over all shards
    timeout   : per-case watchdog in seconds (a safety net, never a verdict)
    shards    : how many processes to use
    """

    def __init__(self, name, strategy=None, enumerate=None, examples=0, timeout=120, shards=None, exhaustive=False, fuzz=0):
        self.name = name
        # fuzz > 0: the strategy is driven by a coverage-guided campaign (pbt/fuzz.py: atheris / libFuzzer through
        # Hypothesis' fuzz_one_input) of that many executions over all shards, instead of Hypothesis' own random generation
        self.fuzz = fuzz
        self.strategy = strategy
        self.enumerate = enumerate
        self.examples = examples
        self.timeout = timeout
        self.shards = shards
        self.exhaustive = exhaustive


class CaseTimeout(Exception):
    pass


class HarnessError(Exception):
    pass


class _ViolationFound(Exception):
    pass


def jsonable(x):
    import numpy as np
    if isinstance(x, dict):
        return {str(k): jsonable(v) for k, v in x.items()}
    if isinstance(x, (list, tuple)):
        return [jsonable(v) for v in x]
    if isinstance(x, (np.bool_,)):
        return bool(x)
    if isinstance(x, np.integer):
        return int(x)
    if isinstance(x, np.floating):
        x = float(x)
    if isinstance(x, float):
        if math.isnan(x) or math.isinf(x):
            return repr(x)
        return x
    if isinstance(x, np.ndarray):
        return jsonable(x.tolist())
    if isinstance(x, (str, int, bool)) or x is None:
        return x
    return repr(x)


def case_hash(case):
    return hashlib.sha1(json.dumps(case, sort_keys=True, default=repr).encode()).hexdigest()[:16]


def derive_seed(seed, *parts):
    h = hashlib.sha256(("/".join([str(seed)] + [str(p) for p in parts])).encode()).digest()
    return int.from_bytes(h[:8], "big") or 1


def get_seed():
    try:
        s = int(os.environ.get("VERIF_SEED", "1"))
    except ValueError:
        s = 1
    return s if s != 0 else 1


def load_prop(pid):
    return importlib.import_module("pbt.props." + pid.lower())


# --------------------------------------------------------------------------------------------------
# classification of exceptions: library code vs harness code
# --------------------------------------------------------------------------------------------------
def has_timeout(e):
    seen = 0
    while e is not None and seen < 8:
        if isinstance(e, CaseTimeout):
            return True
        e = e.__cause__ if e.__cause__ is not None else e.__context__
        seen += 1
    return False


def exc_origin(e):
    """("library", "<file>:<func>") when the innermost traceback frame that belongs to either the harness or the
    library belongs to the library (desolver); ("harness", ...) when it belongs to the harness (pbt) - i.e. who
    raised, ignoring numpy/scipy frames below."""
    if has_timeout(e):
        # the watchdog fired inside library code that wraps exceptions: the case is inconclusive, never a verdict
        return "harness", "watchdog"
    tb = traceback.extract_tb(e.__traceback__)
    who, where = "harness", (tb[-1].name if tb else "?")
    for fr in tb:
        fn = fr.filename
        if "/pbt/" in fn or "/verif/" in fn:
            who, where = "harness", "{}:{}".format(os.path.basename(fn), fr.name)
        elif "/desolver/" in fn:
            who, where = "library", "{}:{}".format(os.path.basename(fn), fr.name)
    return who, where


def exc_sig(e):
    origin, where = exc_origin(e)
    root = e
    seen = 0
    while getattr(root, "__cause__", None) is not None and seen < 5:
        root = root.__cause__
        seen += 1
    if root is not e:
        _, where = exc_origin(root)
    return "{}@{}".format(type(root).__name__, where)


# --------------------------------------------------------------------------------------------------
# known findings
# --------------------------------------------------------------------------------------------------
def load_known(pid):
    path = os.path.join(VERIF, "known_findings.json")
    if not os.path.exists(path):
        return []
    with open(path) as fh:
        data = json.load(fh)
    return [f for f in data.get("findings", []) if f.get("property") == pid]


def _cmp(spec, val):
    if isinstance(spec, dict):
        for op, ref in spec.items():
            if val is None:
                return False
            if op == ">=" and not (val >= ref):
                return False
            if op == "<=" and not (val <= ref):
                return False
            if op == "in" and val not in ref:
                return False
            if op == "prefix" and not str(val).startswith(ref):
                return False
        return True
    return spec == val


def match_known(v, findings):
    for f in findings:
        if f.get("status") != "open":
            continue
        m = f.get("match", {})
        if m.get("sub") != v.sub:
            continue
        where = m.get("where", {})
        if all(_cmp(spec, v.attrs.get(k)) for k, spec in where.items()):
            return f
    return None


# --------------------------------------------------------------------------------------------------
# evaluation of one case
# --------------------------------------------------------------------------------------------------
class Ctx(object):
    def __init__(self, prop, findings, timeout, suppressed=()):
        self.prop = prop
        self.findings = findings
        self.timeout = timeout
        self.suppressed = set(suppressed)
        self.evaluations = 0
        self.nontrivial = set()
        self.labels = collections.Counter()
        self.known_hits = collections.Counter()
        self.suppressed_hits = 0
        self.inconclusive = []
        self.samples = []
        self.metrics = {}
        self.counts = collections.Counter()
        self.last_fail = None
        self.first_fail_time = None
        self.best_fail = None
        self.shrink_budget = 60.0

    def export(self):
        return dict(evaluations=self.evaluations, nontrivial=self.nontrivial, labels=self.labels,
                    known_hits=self.known_hits, suppressed_hits=self.suppressed_hits,
                    inconclusive=self.inconclusive, samples=self.samples, metrics=self.metrics, counts=self.counts)


_FIRED = [False]


def _alarm(signum, frame):
    _FIRED[0] = True
    raise CaseTimeout()


def run_check(prop, case, timeout):
    old = signal.signal(signal.SIGALRM, _alarm)
    _FIRED[0] = False
    signal.setitimer(signal.ITIMER_REAL, timeout)
    try:
        out = prop.check(case)
    finally:
        signal.setitimer(signal.ITIMER_REAL, 0)
        signal.signal(signal.SIGALRM, old)
    if _FIRED[0]:
        # the watchdog fired inside code that swallowed or re-wrapped it (the library turns exceptions of user callables into
        # FailedIntegration): whatever the check concluded from that is not a verdict
        raise CaseTimeout()
    return out


def evaluate(ctx, case):
    """Runs check(case); returns the list of violations that are neither known nor suppressed."""
    ctx.evaluations += 1
    try:
        viols, info = run_check(ctx.prop, case, ctx.timeout)
    except Exception as e:
        if not has_timeout(e):
            raise
        if len(ctx.inconclusive) < 20:
            ctx.inconclusive.append(dict(case=case, why="watchdog {} s".format(ctx.timeout)))
        else:
            ctx.inconclusive.append(None)
        return []
    for lab in info.get("labels", []):
        ctx.labels[lab] += 1
    for k, val in (info.get("counts") or {}).items():
        ctx.counts[k] += int(val)
    for k, val in (info.get("metrics") or {}).items():
        # metrics are "worst observed / allowed" ratios (or plain maxima), kept as maxima in the evidence
        if val is not None and val == val and (k not in ctx.metrics or val > ctx.metrics[k]):
            ctx.metrics[k] = float(val)
    if info.get("nontrivial"):
        ctx.nontrivial.add(case_hash(case))
        if len(ctx.samples) < 3:
            ctx.samples.append(case)
    unknown = []
    for v in viols:
        f = match_known(v, ctx.findings)
        if f is not None:
            ctx.known_hits[f["id"]] += 1
            continue
        if v.bucket in ctx.suppressed:
            ctx.suppressed_hits += 1
            continue
        unknown.append(v)
    return unknown


# --------------------------------------------------------------------------------------------------
# one shard of one part
# --------------------------------------------------------------------------------------------------
def _shard_worker(args):
    pid, tier, part_name, shard, nshards, seed, shrink_budget = args
    os.environ.setdefault("OMP_NUM_THREADS", "1")
    try:
        import faulthandler  # kill -USR1 <worker pid> dumps its python stack to stderr
        faulthandler.register(signal.SIGUSR1, all_threads=False)
        prop = load_prop(pid)
        part = [p for p in prop.parts(tier) if p.name == part_name][0]
        findings = load_known(pid)
        ctx = Ctx(prop, findings, part.timeout)
        ctx.shrink_budget = shrink_budget
        failures = []
        if part.enumerate is not None:
            for idx, case in enumerate(part.enumerate()):
                if idx % nshards != shard:
                    continue
                unknown = evaluate(ctx, case)
                if unknown:
                    known_buckets = {f["bucket"] for f in failures}
                    for v in unknown:
                        if v.bucket not in known_buckets and len(failures) < 8:
                            failures.append(dict(bucket=v.bucket, case=case, violations=[u.to_json() for u in unknown]))
                            known_buckets.add(v.bucket)
        if part.strategy is not None and part.fuzz > 0:
            return _fuzz_shard(pid, tier, part, shard, nshards, seed)
        if part.strategy is not None and part.examples > 0:
            n = max(1, part.examples // nshards + (1 if shard < part.examples % nshards else 0))
            failures += _hypothesis_rounds(ctx, part, n, derive_seed(seed, pid, part_name, shard))
        out = ctx.export()
        out["failures"] = failures
        out["error"] = None
        return out
    except BaseException as e:  # harness error: report, never a VIOLATION
        return dict(error="{}: {}\n{}".format(type(e).__name__, e, traceback.format_exc()), failures=[],
                    evaluations=0, nontrivial=set(), labels=collections.Counter(), known_hits=collections.Counter(),
                    suppressed_hits=0, inconclusive=[], samples=[], metrics={}, counts=collections.Counter())


def _ensure_atheris():
    """the coverage-guided parts need atheris beside the checks (/verif/.deps is not under version control): install it from
    the local wheelhouse once, before the shards start; if that is impossible the parts report themselves as skipped"""
    import importlib.util, subprocess
    deps = os.path.join(VERIF, ".deps")
    if deps not in sys.path:
        sys.path.append(deps)
    if importlib.util.find_spec("atheris") is not None:
        return
    try:
        subprocess.run([sys.executable, "-m", "pip", "install", "--no-index", "--find-links", "/opt/veriftools/wheels", "--target", deps, "atheris"],
                       capture_output=True, text=True, timeout=300)
        importlib.invalidate_caches()
    except Exception:
        pass


def _fuzz_shard(pid, tier, part, shard, nshards, seed):
    """one coverage-guided campaign in a subprocess (libFuzzer owns the process: it never returns to its caller)"""
    import subprocess, shutil, tempfile
    runs = max(1, part.fuzz // nshards)
    outdir = tempfile.mkdtemp(prefix="vfuzz_{}_{}_".format(pid, shard))
    empty = dict(error=None, failures=[], evaluations=0, nontrivial=set(), labels=collections.Counter(), known_hits=collections.Counter(),
                 suppressed_hits=0, inconclusive=[], samples=[], metrics={}, counts=collections.Counter())
    try:
        env = dict(os.environ)
        p = subprocess.run([sys.executable, "-W", "ignore", "-m", "pbt.fuzz", pid, part.name, tier, str(runs), str(derive_seed(seed, pid, part.name, shard) % (2 ** 31 - 1) or 1), outdir],
                           env=env, capture_output=True, text=True, cwd=VERIF, timeout=max(600, part.timeout * 20))
        rp = os.path.join(outdir, "result.json")
        if not os.path.exists(rp):
            empty["error"] = "coverage-guided campaign left no result (exit {}): {}".format(p.returncode, (p.stderr or "")[-600:])
            return empty
        with open(rp) as fh:
            r = json.load(fh)
        if r.get("error"):
            empty["error"] = r["error"]
            return empty
        if r.get("skipped"):
            empty["labels"]["coverage_guided:skipped"] += 1
            empty["counts"]["coverage_guided_skipped"] += 1
            return empty
        out = dict(empty)
        out["evaluations"] = r["evaluations"]
        out["nontrivial"] = set(r["nontrivial"])
        out["labels"] = collections.Counter(r["labels"])
        out["labels"]["coverage_guided"] += r["evaluations"]
        out["known_hits"] = collections.Counter(r["known_hits"])
        out["inconclusive"] = [None] * int(r.get("inconclusive", 0))
        out["samples"] = r.get("samples", [])
        out["counts"] = collections.Counter(coverage_guided_executions=r["evaluations"],
                                            coverage_guided_corpus_files=len(os.listdir(os.path.join(outdir, "corpus"))))
        if r.get("failure"):
            out["failures"] = [r["failure"]]
        return out
    except subprocess.TimeoutExpired:
        empty["inconclusive"] = [None]
        return empty
    finally:
        shutil.rmtree(outdir, ignore_errors=True)


def _hypothesis_rounds(ctx, part, n_examples, hseed, max_rounds=4):
    """Run the strategy; on an unknown violation let Hypothesis shrink it (bounded), record it,
    suppress its bucket and continue with what is left of the budget."""
    import hypothesis
    from hypothesis import given, settings, HealthCheck, Phase

    failures = []
    remaining = n_examples
    for rnd in range(max_rounds):
        if remaining <= 0:
            break
        ctx.last_fail = None
        ctx.first_fail_time = None
        ctx.best_fail = None
        ctx.round_generated = 0

        @hypothesis.seed(derive_seed(hseed, rnd))
        @settings(max_examples=remaining, database=None, deadline=None, derandomize=False,
                  report_multiple_bugs=False, print_blob=False,
                  phases=[Phase.generate, Phase.shrink],
                  suppress_health_check=[HealthCheck.too_slow, HealthCheck.data_too_large,
                                         HealthCheck.large_base_example])
        @given(part.strategy)
        def _t(case):
            if ctx.first_fail_time is not None and time.time() - ctx.first_fail_time > ctx.shrink_budget:
                # shrink budget exhausted: only the best known failing case still fails, so the shrinker stops
                if ctx.best_fail is not None and case == ctx.best_fail[0]:
                    ctx.last_fail = ctx.best_fail
                    raise _ViolationFound()
                return
            if ctx.first_fail_time is None:
                ctx.round_generated += 1  # only the generation phase consumes the example budget, shrinking does not
            unknown = evaluate(ctx, case)
            if unknown:
                if ctx.first_fail_time is None:
                    ctx.first_fail_time = time.time()
                # Hypothesis shrinks towards *any* failure; keep it within the first bucket found
                if ctx.best_fail is not None and unknown[0].bucket != ctx.best_fail[1][0].bucket:
                    same = [u for u in unknown if u.bucket == ctx.best_fail[1][0].bucket]
                    if not same:
                        return
                    unknown = same + [u for u in unknown if u not in same]
                ctx.last_fail = (case, unknown)
                if ctx.best_fail is None or len(json.dumps(case, default=repr)) <= len(json.dumps(ctx.best_fail[0], default=repr)):
                    ctx.best_fail = (case, unknown)
                raise _ViolationFound()

        try:
            _t()
        except _ViolationFound:
            case, unknown = ctx.last_fail if ctx.last_fail is not None else ctx.best_fail
            failures.append(dict(bucket=unknown[0].bucket, case=case, violations=[u.to_json() for u in unknown]))
            ctx.suppressed.add(unknown[0].bucket)
        except hypothesis.errors.Flaky as e:
            if ctx.best_fail is not None:
                case, unknown = ctx.best_fail
                failures.append(dict(bucket=unknown[0].bucket, case=case, flaky=True,
                                     violations=[u.to_json() for u in unknown]))
                ctx.suppressed.add(unknown[0].bucket)
            else:
                raise HarnessError("flaky check: {}".format(e))
        else:
            break
        remaining -= max(ctx.round_generated, 1)
    return failures


# --------------------------------------------------------------------------------------------------
# whole property
# --------------------------------------------------------------------------------------------------
def replay_corpus(prop, findings, pid):
    """Replays /verif/replays/<ID>/*.json (hand-written seeds, shrunk failures of the past, repros of fixed
    findings) and the repro of every open finding."""
    failures = []
    known_lines = []
    n = 0
    ctx = Ctx(prop, findings, 600)
    d = os.path.join(VERIF, "replays", pid)
    if os.path.isdir(d):
        for name in sorted(os.listdir(d)):
            if not name.endswith(".json"):
                continue
            with open(os.path.join(d, name)) as fh:
                case = json.load(fh)
            if isinstance(case, dict) and isinstance(case.get("case"), dict) and "part" not in case:
                case = case["case"]
            unknown = evaluate(ctx, case)
            n += 1
            if unknown:
                failures.append(dict(bucket=unknown[0].bucket, case=case, source="replays/{}/{}".format(pid, name),
                                     violations=[u.to_json() for u in unknown]))
    for f in findings:
        if f.get("status") != "open":
            continue
        still = None
        if f.get("repro") is not None:
            before = ctx.known_hits.get(f["id"], 0)
            unknown = evaluate(ctx, f["repro"])
            n += 1
            still = ctx.known_hits.get(f["id"], 0) > before
            if unknown:
                failures.append(dict(bucket=unknown[0].bucket, case=f["repro"], source="known_findings:" + f["id"],
                                     violations=[u.to_json() for u in unknown]))
        known_lines.append((f, still))
    return ctx, failures, known_lines, n


def run_property(pid, tier, seed, only_part=None):
    t_start = time.time()
    prop = load_prop(pid)
    findings = load_known(pid)
    parts = prop.parts(tier)
    if only_part:
        parts = [p for p in parts if p.name == only_part]
    outdir = os.path.join(OUT_ROOT, pid)
    os.makedirs(outdir, exist_ok=True)
    for name in os.listdir(outdir):
        if name.endswith(".json"):
            os.remove(os.path.join(outdir, name))

    total = dict(evaluations=0, nontrivial=set(), labels=collections.Counter(), known_hits=collections.Counter(),
                 suppressed_hits=0, inconclusive=[], samples=[], metrics={}, counts=collections.Counter())
    failures = []
    errors = []
    part_stats = {}

    rctx, rfail, known_lines, nreplay = replay_corpus(prop, findings, pid)
    failures += rfail
    _merge(total, rctx.export())
    part_stats["replay_corpus"] = dict(evaluations=nreplay)

    shrink_budget = 20.0 if tier == "quick" else 120.0
    if any(getattr(part, "fuzz", 0) > 0 for part in parts):
        _ensure_atheris()
    jobs = []
    for part in parts:
        ns = part.shards or NPROC
        if part.strategy is not None and part.examples > 0:
            ns = max(1, min(ns, part.examples))
        if part.fuzz > 0:
            ns = max(1, min(part.shards or NPROC, part.fuzz // 200))
        for sh in range(ns):
            jobs.append((pid, tier, part.name, sh, ns, seed, shrink_budget))
    if jobs:
        ctxm = multiprocessing.get_context("fork")
        with ctxm.Pool(min(NPROC, len(jobs)), maxtasksperchild=1) as pool:
            results = pool.map(_shard_worker, jobs, chunksize=1)
        for job, res in zip(jobs, results):
            if res["error"]:
                errors.append("part {} shard {}: {}".format(job[2], job[3], res["error"]))
            for f in res["failures"]:
                f["part"] = job[2]
                failures.append(f)
            ps = part_stats.setdefault(job[2], dict(evaluations=0, nontrivial=0))
            ps["evaluations"] += res["evaluations"]
            ps["nontrivial"] += len(res["nontrivial"])
            _merge(total, res)

    # one replay file per bucket
    by_bucket = collections.OrderedDict()
    for f in failures:
        b = f["bucket"]
        if b not in by_bucket or len(json.dumps(f["case"], default=repr)) < len(json.dumps(by_bucket[b]["case"], default=repr)):
            by_bucket[b] = f
    lines = []
    for i, (b, f) in enumerate(by_bucket.items()):
        safe = "".join(ch if ch.isalnum() else "_" for ch in b)[:80]
        path = os.path.join(outdir, "{:02d}_{}.json".format(i, safe))
        with open(path, "w") as fh:
            json.dump(dict(property=pid, bucket=b, case=f["case"], violations=f["violations"],
                           source=f.get("source", "generated:" + f.get("part", "?"))), fh, indent=1, default=repr)
        lines.append("VIOLATION property={} replay={}".format(pid, path))
        for v in f["violations"][:3]:
            lines.append("  # {}: {}".format(v["sub"], v["msg"]))

    for f, still in known_lines:
        hits = total["known_hits"].get(f["id"], 0)
        if still is False and hits == 0:
            print("NOTE: open finding {} no longer reproduces (property={}): {}".format(f["id"], pid, f["what"]))
        else:
            print("KNOWN-FINDING: property={} {} [{}; matched {} generated cases]".format(pid, f["what"], f["id"], hits))
    for f in findings:
        if f.get("status") == "fixed":
            print("fixed: property={} {} {}".format(pid, f.get("commit", "?"), f["what"]))

    n_inconclusive = len(total["inconclusive"])
    wall = time.time() - t_start
    exhaustive = all(p.exhaustive for p in parts) and bool(parts)
    ev = dict(
        property_id=pid, tier=tier, seed=seed, level=prop.LEVEL,
        coverage=dict(
            evaluations=total["evaluations"],
            distinct_nontrivial=len(total["nontrivial"]),
            rule=prop.RULE,
            samples=jsonable(total["samples"][:5]),
            exhaustive=exhaustive,
            exhaustive_parts=[p.name for p in parts if p.exhaustive],
            parts=part_stats,
            classes=dict(sorted(total["labels"].items())),
            worst_observed=dict(sorted(total["metrics"].items())),
            sub_evaluations=dict(sorted(total["counts"].items())),
            known_findings_hit=dict(total["known_hits"]),
            suppressed_after_first_report=total["suppressed_hits"],
            inconclusive_cases=n_inconclusive,
            shards=len(jobs),
        ),
        assumptions=list(getattr(prop, "ASSUMPTIONS", [])),
        wall_s=round(wall, 2),
        violations=len(by_bucket),
    )
    # a run restricted to one part (--part, a development aid) describes less than the registered command covers: its
    # evidence goes beside the replay files, never over evidence/<ID>.json
    evid_dir = outdir if only_part else EVID_ROOT
    os.makedirs(evid_dir, exist_ok=True)
    with open(os.path.join(evid_dir, (pid + ".part.evidence" if only_part else pid) + ".json"), "w") as fh:
        json.dump(ev, fh, indent=1, default=repr)

    print("{} tier={} seed={}: {} cases, {} distinct non-trivial, {} inconclusive, {} known-finding hits, {:.1f} s".format(
        pid, tier, seed, total["evaluations"], len(total["nontrivial"]), n_inconclusive,
        sum(total["known_hits"].values()), wall))
    if lines:
        print("\n".join(lines))
        return 1
    if errors:
        print("HARNESS-ERROR property={}".format(pid))
        for e in errors[:5]:
            print(e)
        return 2
    # (cases that tripped the watchdog are kept for inspection whether or not there are enough of them to void the run)
    for inc in [i for i in total["inconclusive"] if i][:3]:
        path = os.path.join(outdir, "inconclusive_{}.json".format(case_hash(inc["case"])))
        with open(path, "w") as fh:
            json.dump(inc, fh, indent=1, default=repr)
    if total["evaluations"] and n_inconclusive > max(1, 0.01 * total["evaluations"]):
        print("INCONCLUSIVE property={}: {} cases tripped the watchdog".format(pid, n_inconclusive))
        return 2
    return 0


def _merge(total, res):
    total["evaluations"] += res["evaluations"]
    total["nontrivial"] |= res["nontrivial"]
    total["labels"].update(res["labels"])
    total["known_hits"].update(res["known_hits"])
    total["suppressed_hits"] += res["suppressed_hits"]
    total["inconclusive"] += res["inconclusive"]
    total["counts"].update(res.get("counts", {}))
    for k, val in res.get("metrics", {}).items():
        if k not in total["metrics"] or val > total["metrics"][k]:
            total["metrics"][k] = val
    for s in res["samples"]:
        if len(total["samples"]) < 5:
            total["samples"].append(s)


def replay_file(pid, path):
    prop = load_prop(pid)
    findings = load_known(pid)
    with open(path) as fh:
        case = json.load(fh)
    if isinstance(case, dict) and isinstance(case.get("case"), dict) and ("violations" in case or "property" in case or "part" not in case):
        case = case["case"]
    ctx = Ctx(prop, findings, 1200)
    unknown = evaluate(ctx, case)
    for fid, n in ctx.known_hits.items():
        print("KNOWN-FINDING: property={} {}".format(pid, fid))
    if unknown:
        print("VIOLATION property={} replay={}".format(pid, path))
        for v in unknown:
            print("  # {}: {}".format(v.bucket, v.msg))
        return 1
    if ctx.inconclusive:
        print("INCONCLUSIVE property={} replay={}".format(pid, path))
        return 2
    print("OK property={} replay={}".format(pid, path))
    return 0
