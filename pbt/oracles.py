"""Oracles that are independent of the code under test."""
import functools
import numpy as np

LD = np.longdouble


# --------------------------------------------------------------------------------------------------
# rooted trees and Butcher's order conditions
# --------------------------------------------------------------------------------------------------
class Forest(object):
    """All rooted trees up to `max_order`, canonical (a tree is the non-increasing tuple of its children's ids).
    ids are assigned order by order; self.children[id], self.order[id], self.gamma[id] (density), self.by_order[k]."""

    def __init__(self, max_order):
        self.children = [()]
        self.order = [1]
        self.gamma = [1]
        self.by_order = {1: [0]}
        for k in range(2, max_order + 1):
            self.by_order[k] = []
            for kids in self._multisets(k - 1, len(self.children) - 1):
                g = k
                for c in kids:
                    g *= self.gamma[c]
                self.children.append(kids)
                self.order.append(k)
                self.gamma.append(g)
                self.by_order[k].append(len(self.children) - 1)

    def _multisets(self, total, max_id):
        """non-increasing tuples of tree ids (each <= max_id) whose orders sum to `total`"""
        if total == 0:
            yield ()
            return
        for tid in range(max_id, -1, -1):
            o = self.order[tid]
            if o > total:
                continue
            for rest in self._multisets(total - o, tid):
                yield (tid,) + rest


@functools.lru_cache(None)
def forest(max_order):
    return Forest(max_order)


def tree_residuals(A, b, max_order, rows=None):
    """For every tree t of order <= max_order: (order, |b.Phi(t) - 1/gamma(t)|, scale = 1/gamma + |b|.|Phi|(t)).
    Elementary weights by the memoised recursion u(t) = prod_k A u(t_k), in longdouble. Returns arrays."""
    F = forest(max_order)
    A = np.asarray(A, dtype=LD)
    b = np.asarray(b, dtype=LD)
    absA, absb = np.abs(A), np.abs(b)
    s = A.shape[0]
    n = len(F.children)
    Au = [None] * n       # A @ u(t)
    Aua = [None] * n      # |A| @ |u|(t)  (for the rounding scale)
    res = np.zeros(n)
    scale = np.zeros(n)
    one = np.ones(s, dtype=LD)
    for tid in range(n):
        if F.order[tid] > max_order:
            break
        u = one
        ua = one
        for c in F.children[tid]:
            u = u * Au[c]
            ua = ua * Aua[c]
        Au[tid] = A @ u
        Aua[tid] = absA @ ua
        inv_gamma = LD(1) / LD(F.gamma[tid])
        res[tid] = float(abs(b @ u - inv_gamma))
        scale[tid] = float(inv_gamma + absb @ ua)
    return np.asarray(F.order), res, scale


def simplifying_assumptions(c, A, b, tol=1e-9):
    """Largest q, eta, zeta with B(q), C(eta), D(zeta) holding to `tol` (relative to the terms summed);
    Butcher: order >= min(q, eta + zeta + 1, 2 eta + 2)."""
    c = np.asarray(c, dtype=LD); A = np.asarray(A, dtype=LD); b = np.asarray(b, dtype=LD)
    s = len(c)
    q = 0
    for k in range(1, 2 * s + 2):
        lhs = b @ c ** (k - 1)
        if abs(lhs - LD(1) / k) <= tol * (np.abs(b) @ np.abs(c) ** (k - 1) + 1 / k):
            q = k
        else:
            break
    eta = 0
    for k in range(1, s + 2):
        lhs = A @ c ** (k - 1)
        if np.all(np.abs(lhs - c ** k / k) <= tol * (np.abs(A) @ np.abs(c) ** (k - 1) + np.abs(c) ** k / k + 1e-300)):
            eta = k
        else:
            break
    zeta = 0
    for k in range(1, s + 2):
        lhs = (b * c ** (k - 1)) @ A
        if np.all(np.abs(lhs - b * (1 - c ** k) / k) <= tol * ((np.abs(b) * np.abs(c) ** (k - 1)) @ np.abs(A) + np.abs(b) / k + 1e-300)):
            zeta = k
        else:
            break
    return q, eta, zeta


# --------------------------------------------------------------------------------------------------
# stability function
# --------------------------------------------------------------------------------------------------
def stability_function(A, b, z):
    """R(z) = 1 + z b^T (I - z A)^-1 1   (complex128; z scalar)"""
    A = np.asarray(A, dtype=np.complex128)
    b = np.asarray(b, dtype=np.complex128)
    s = A.shape[0]
    return 1 + z * (b @ np.linalg.solve(np.eye(s) - z * A, np.ones(s, dtype=np.complex128)))


# --------------------------------------------------------------------------------------------------
# reference cubic Hermite
# --------------------------------------------------------------------------------------------------
def hermite(t0, t1, p0, p1, m0, m1, t):
    t0, t1, t = LD(t0), LD(t1), LD(t)
    p0, p1, m0, m1 = [np.asarray(x, dtype=LD) for x in (p0, p1, m0, m1)]
    L = t1 - t0
    u = (t - t0) / L
    h00 = 2 * u ** 3 - 3 * u ** 2 + 1
    h10 = u ** 3 - 2 * u ** 2 + u
    h01 = -2 * u ** 3 + 3 * u ** 2
    h11 = u ** 3 - u ** 2
    return h00 * p0 + h10 * L * m0 + h01 * p1 + h11 * L * m1


def hermite_deriv(t0, t1, p0, p1, m0, m1, t):
    """d/dt of the cubic Hermite piece (analytic, longdouble) - finite differences of the piece are too noisy to read the
    sign of a change of 1e-7 in a derivative-dependent event function"""
    t0, t1, t = LD(t0), LD(t1), LD(t)
    p0, p1, m0, m1 = [np.asarray(x, dtype=LD) for x in (p0, p1, m0, m1)]
    L = t1 - t0
    u = (t - t0) / L
    return (6 * u - 6 * u ** 2) * ((p1 - p0) / L) + (3 * u ** 2 - 4 * u + 1) * m0 + (3 * u ** 2 - 2 * u) * m1


def slope_fit(hs, errs, floor, ceil, window=7, min_ratio=1.9):
    """Observed order of convergence from a ladder (h_j, err_j).

    Usable points: floor_j < err_j < ceil (floor may be a list, one per point). Among the `window` finest usable
    points every pair whose step sizes differ by at least `min_ratio` gives a log-log slope; the statistic is the
    BEST such slope. Error curves of correct methods have dips (sign changes of the error) and pre-asymptotic
    stretches that lower individual slopes, never a stretch that is asymptotically steeper than p + 1 near the
    floor; so 'best slope over the finest window >= p + 1 - slack' cannot be failed by a method of the right order,
    while a method of lower order fails it on every problem whose window has no dip.
    Returns (stat, number of usable points, list of (h1, h2, slope))."""
    floors = floor if isinstance(floor, (list, tuple, np.ndarray)) else [floor] * len(hs)
    pts = [(abs(float(h)), float(e)) for h, e, fl in zip(hs, errs, floors) if fl < e < ceil and np.isfinite(e)]
    pts.sort()
    pts = pts[:window]
    sl = []
    for i in range(len(pts)):
        for j in range(i + 1, len(pts)):
            if pts[j][0] >= min_ratio * pts[i][0]:
                sl.append((pts[i][0], pts[j][0], (np.log(pts[j][1]) - np.log(pts[i][1])) / (np.log(pts[j][0]) - np.log(pts[i][0]))))
    if len(pts) < 3 or not sl:
        return None, len(pts), sl
    return float(max(x[2] for x in sl)), len(pts), sl
