"""CLI:  python -m pbt.run <ID> [--tier quick|thorough] [--part NAME]   |   python -m pbt.run <ID> --replay <file>"""
import argparse
import os
import sys
import traceback


def main(argv=None):
    ap = argparse.ArgumentParser()
    ap.add_argument("pid")
    ap.add_argument("--tier", default=os.environ.get("VERIF_TIER") or "quick", choices=["quick", "thorough"])
    ap.add_argument("--replay", default=None)
    ap.add_argument("--part", default=None)
    args = ap.parse_args(argv)
    import warnings
    warnings.filterwarnings("ignore")
    import faulthandler, signal
    faulthandler.register(signal.SIGUSR1, all_threads=False)     # kill -USR1 <pid> dumps the python stack
    from pbt import core
    import desolver  # imported once, before the shards fork
    pid = args.pid.upper()
    try:
        if args.replay:
            return core.replay_file(pid, args.replay)
        return core.run_property(pid, args.tier, core.get_seed(), only_part=args.part)
    except Exception as e:
        print("HARNESS-ERROR property={}: {}: {}".format(pid, type(e).__name__, e))
        traceback.print_exc()
        return 2


if __name__ == "__main__":
    sys.exit(main())
