"""Shared machinery for the trajectory properties: building an OdeSystem from a JSON-able case, strategies for
methods / spans / step sizes, the structural invariants of a recorded trajectory (C03) and helpers."""
import math

import numpy as np
from hypothesis import strategies as st

from pbt import methods as M
from pbt import problems as PR
from pbt.core import V, exc_sig, exc_origin


class StepCap(Exception):
    """raised by the harness' counting callback: deterministic bound on the number of recorded steps"""


def cap_callback(limit):
    def cb(system):
        if len(system) > limit:
            raise StepCap("more than {} recorded steps".format(limit))
    return cb


# --------------------------------------------------------------------------------------------------
# strategies
# --------------------------------------------------------------------------------------------------
FAMILY_POOL = ["explicit_fixed", "embedded", "splitting", "implicit_fixed", "implicit_embedded", "richardson"]


@st.composite
def method_name(draw, families=None, weights=None, rich_bases=("RK4Solver", "MidpointSolver", "RK45CKSolver", "HeunEulerSolver", "ABAs5o6HSolver", "ImplicitMidpoint")):
    fams = list(families or FAMILY_POOL)
    if weights:
        pool = []
        for f, w in zip(fams, weights):
            pool += [f] * w
        fam = draw(st.sampled_from(pool))
    else:
        fam = draw(st.sampled_from(fams))
    if fam == "richardson":
        base = draw(st.sampled_from(list(rich_bases)))
        return "Rich{}:{}".format(draw(st.integers(2, 4)), base)
    names = [n for n in M.names("all") if M.family(n) == fam and n != "RadauIIA19"]
    if fam == "implicit_embedded" and draw(st.integers(0, 9)) == 0:
        names = ["RadauIIA19"]
    return draw(st.sampled_from(names))


@st.composite
def span(draw, max_len=8.0):
    """(t0, tf): any sign, either direction, classes both-negative / mixed / |tf| < |t0| / backward-to-zero"""
    t0 = draw(st.one_of(st.sampled_from([0.0, 0.0, 1.0, -1.0, 5.0, -5.0, 10.0, -10.0, 100.0, -300.0]),
                        st.floats(-1e3, 1e3).map(lambda x: round(x, 3))))
    length = draw(st.one_of(st.sampled_from([1.0, 0.5, 2.0, 6.0, 0.125]), st.floats(1e-2, max_len).map(lambda x: round(x, 4))))
    direction = draw(st.sampled_from([1.0, 1.0, -1.0]))
    tf = t0 + direction * length
    if draw(st.integers(0, 7)) == 0:
        tf = 0.0 if t0 != 0 else direction * length
    return t0, tf


@st.composite
def step_size(draw, span_len, lo=0.004, hi=4.0):
    """initial dt: from lo*span to hi*span (larger than the span included), either sign, incl. exact binary fractions"""
    frac = draw(st.one_of(st.sampled_from([1 / 8.0, 1 / 16.0, 1 / 64.0, 0.1, 0.05, 0.3, 1.0, 2.5]), st.floats(lo, hi).map(lambda x: round(x, 5))))
    frac = min(max(frac, lo), hi)
    return span_len * frac * draw(st.sampled_from([1.0, 1.0, -1.0]))


def span_class(t0, tf):
    out = []
    if t0 != 0:
        out.append("t0!=0")
    if tf < t0:
        out.append("backward")
    if t0 < 0 and tf < 0:
        out.append("both_negative")
    if (t0 < 0) != (tf < 0) and t0 != 0 and tf != 0:
        out.append("mixed_sign")
    if abs(tf) < abs(t0):
        out.append("|tf|<|t0|")
    return out


# --------------------------------------------------------------------------------------------------
# system construction
# --------------------------------------------------------------------------------------------------
def initial_state(case, f, dt):
    prob = case["prob"]
    if prob["kind"] in ("man", "sep"):
        return np.asarray(f.exact(case["t0"], np.longdouble), dtype=dt)
    return np.asarray(case["y0"], dtype=dt).reshape(f.shape)


def make_system(case, events_ok=True, hide_jac=False, rhs_wrapper=None):
    """Builds OdeSystem(rhs, y0, t=(t0, tf), dense_output, dt, rtol, atol) and sets the method (by class)."""
    import desolver as de
    dt = M.DTYPES[case.get("dtype", "float64")]
    f = PR.build(case["prob"])
    y0 = initial_state(case, f, dt)
    if hide_jac or not hasattr(f, "jac") or not case.get("user_jac", True):
        def rhs(t, y, **kw):
            return f(t, y)
    else:
        rhs = f
    if rhs_wrapper is not None:
        rhs = rhs_wrapper(rhs)
    kw = {}
    if case.get("rtol") is not None:
        kw["rtol"] = case["rtol"]
        kw["atol"] = case.get("atol", case["rtol"])
    y0_in = y0.copy()
    a = de.OdeSystem(rhs, y0=y0_in, t=(case["t0"], case["tf"]), dense_output=bool(case.get("dense", False)), dt=case["dt"],
                     constants=dict(case.get("constants", {})), **kw)
    a.method = M.get(case["method"])
    return a, f, y0


def default_tols(method, dtype="float64"):
    """tolerances given to every system: wrappers need them (D23), implicit methods use them for the Newton solve"""
    if dtype == "float32":
        return 1e-4
    return 1e-8


# --------------------------------------------------------------------------------------------------
# structural invariants of a recorded trajectory (C03)
# --------------------------------------------------------------------------------------------------
def trajectory_invariants(a, t0, y0, segments, dtype, attrs, check_status=True):
    """segments: list of (start_index, end_index, target, direction) per integrate call that moved the system.
    Returns list of V."""
    out = []
    t = np.asarray(a.t)
    y = np.asarray(a.y)
    eps = float(np.finfo(dtype).eps)
    sig = attrs.get("family", "")
    if len(t) != len(y) or len(t) != len(a):
        out.append(V("pairing", "len(t)={} len(y)={} len(system)={}".format(len(t), len(y), len(a)), sig, **attrs))
        return out
    if t.dtype != np.dtype(dtype) or y.dtype != np.dtype(dtype):
        out.append(V("dtype", "stored dtypes t:{} y:{} for an initial state of dtype {}".format(t.dtype, y.dtype, np.dtype(dtype)), sig, **attrs))
    if not (t[0] == dtype(t0)) or not np.array_equal(y[0], y0):
        out.append(V("first_sample", "first recorded sample ({!r}, {}) is not the initial condition ({!r}, {})".format(float(t[0]), y[0].tolist(), t0, np.asarray(y0).tolist()), sig, **attrs))
    if not np.all(np.isfinite(t)) or not np.all(np.isfinite(y)):
        out.append(V("nonfinite", "non-finite value stored in the trajectory", sig, **attrs))
        return out
    for (i0, i1, target, direction) in segments:
        seg = t[i0:i1 + 1].astype(np.longdouble)
        d = np.diff(seg)
        if len(d) and not np.all(np.sign(d) == direction):
            k = int(np.argmax(np.sign(d) != direction))
            out.append(V("monotone", "recorded times are not strictly monotone toward the target {!r}: t[{}..{}] = {}".format(
                target, i0 + k, i0 + k + 1, [float(x) for x in seg[k:k + 2]]), sig, **attrs))
        tol = 64 * eps * max(1.0, abs(float(t[i0])), abs(target))
        if abs(float(seg[-1]) - target) > tol:
            out.append(V("end_time", "integration toward {!r} ended at {!r} (off by {:.3e}, allowed {:.3e})".format(
                target, float(seg[-1]), abs(float(seg[-1]) - target), tol), sig, **attrs))
        beyond = (seg - np.longdouble(target)) * direction
        if np.any(beyond > tol):
            k = int(np.argmax(beyond > tol))
            out.append(V("overshoot", "recorded time {!r} lies beyond the target {!r} (direction {})".format(float(seg[k]), target, int(direction)), sig, **attrs))
    if check_status:
        if not a.success or "completed successfully" not in a.integration_status:
            out.append(V("status", "integration returned normally but success={} status={!r}".format(a.success, a.integration_status), sig, **attrs))
    return out


def run_integrate(a, target=None, step_limit=None, events=None, callbacks=None, injected=(), eta=False):
    """Calls a.integrate; returns (exception or None). A StepCap is returned as the StepCap itself.
    eta=True asks for the progress bar (silenced through TQDM_DISABLE=1 in ./check: the bookkeeping around it still runs)."""
    import desolver as de
    cbs = list(callbacks or [])
    if step_limit is not None:
        cbs.append(cap_callback(step_limit))
    try:
        kw = dict(eta=True) if eta else {}
        if target is None:
            a.integrate(callback=cbs, events=events, **kw)
        else:
            a.integrate(target, callback=cbs, events=events, **kw)
    except de.exception_types.FailedIntegration as e:
        cause = e.__cause__
        depth = 0
        while isinstance(cause, de.exception_types.FailedIntegration) and cause.__cause__ is not None and depth < 5:
            cause = cause.__cause__     # the landing re-integration at a terminal event nests one level
            depth += 1
        from pbt.core import CaseTimeout
        if isinstance(cause, CaseTimeout):
            raise cause
        if depth:
            e.__cause__ = cause
        if isinstance(cause, StepCap):
            return cause
        if injected and isinstance(cause, tuple(injected)):
            return e      # a fault the harness injected on purpose
        if exc_origin(cause if cause is not None else e)[0] == "harness" and not isinstance(cause, StepCap):
            # an exception raised by harness code inside a user callable: a harness bug, not a finding
            raise cause
        return e
    return None


# --------------------------------------------------------------------------------------------------
# dense-output consistency of a whole recorded trajectory (C06 oracles 1, 2, 4), reused by C09 / C12
# --------------------------------------------------------------------------------------------------
def dense_consistency(a, rhs, fam, attrs, max_steps=80, what="", sig_what=None):
    from pbt import oracles as O
    out = []
    sol = a.sol
    if sol is None:
        return out
    rich = False     # wrappers are judged like every other method since fix 3f44fc1
    t = np.asarray(a.t, dtype=np.float64)
    y = np.asarray(a.y, dtype=np.float64)
    N = len(t) - 1
    sig = "{}:{}".format(fam, what if sig_what is None else sig_what)
    te = [float(x) for x in (sol.t_eval or [])]
    if not rich:
        if len(te) != N or len(sol.y_interpolants) != N:
            out.append(V("piece_count", "{}{} dense-output pieces for {} recorded steps (piece end times {}, recorded times {})".format(
                what + ": " if what else "", len(sol.y_interpolants), N, te[-4:], t[-4:].tolist()), sig, **attrs))
            return out
        if sorted(te) != sorted(t[1:].tolist()):
            out.append(V("piece_times", "{}piece end times are not the recorded times".format(what + ": " if what else ""), sig, **attrs))
            return out
        if any(b <= a_ for a_, b in zip(te, te[1:])):
            out.append(V("piece_order", "{}sol.t_eval is not strictly increasing".format(what + ": " if what else ""), sig, **attrs))
            return out
    if rich or N == 0:
        return out
    F = {}

    def f_at(k):
        if k not in F:
            F[k] = np.asarray(rhs(np.float64(t[k]), y[k].copy()), dtype=np.float64)
        return F[k]
    steps = range(N) if N <= max_steps else sorted(set(np.linspace(0, N - 1, max_steps).astype(int).tolist()) | {N - 1, N - 2, max(N - 3, 0)})
    # (the order of the queries alternates with the number of steps: the first query after a run may be anywhere)
    for k in (range(N + 1) if N % 2 == 0 else range(N, -1, -1)):
        got = np.asarray(sol(np.float64(t[k])), dtype=np.float64)
        if not np.array_equal(got, y[k]):
            out.append(V("grid_point", "{}sol(t[{}]={!r}) differs from the recorded state by {:.3e} ({} steps)".format(
                what + ": " if what else "", k, float(t[k]), float(np.max(np.abs(got - y[k]))), N), sig, **attrs))
            return out
    for k in steps:
        ta, tb = t[k], t[k + 1]
        for tt in (np.nextafter(ta, tb), ta + 0.37 * (tb - ta), ta + 0.5 * (tb - ta), np.nextafter(tb, ta)):
            if tt == ta or tt == tb:
                continue
            got = np.asarray(sol(np.float64(tt)), dtype=np.float64)
            ref = np.asarray(O.hermite(ta, tb, y[k], y[k + 1], f_at(k), f_at(k + 1), tt), dtype=np.float64)
            scale = max(float(np.max(np.abs(y[k]))), float(np.max(np.abs(y[k + 1]))), abs(tb - ta) * max(float(np.max(np.abs(f_at(k)))), float(np.max(np.abs(f_at(k + 1))))), 1e-300)
            d = float(np.max(np.abs(got - ref)))
            if not d <= 1e-12 * scale:
                out.append(V("interior_piece", "{}sol({!r}) inside step {} of {} ([{!r}, {!r}]) differs from the cubic Hermite through the recorded end states and the rhs there by {:.3e} (relative {:.3e})".format(
                    what + ": " if what else "", float(tt), k, N, float(ta), float(tb), d, d / scale), sig, **attrs))
                return out
    return out
