"""Running a system with events for C07 / C08 / C09 and collecting everything the oracles need."""
import numpy as np
from hypothesis import strategies as st

from pbt import events as EV
from pbt import methods as M
from pbt import traj
from pbt.core import exc_origin


@st.composite
def event_case(draw, part, terminal_mode="none", max_events=6):
    method = draw(traj.method_name(weights=[5, 5, 2, 2, 1, 1]))
    fam = M.family(M.get(method))
    slow = fam in ("implicit_fixed", "implicit_embedded", "richardson")
    t0, tf = draw(traj.span(max_len=5.0))
    if draw(st.integers(0, 3)) == 0:
        # exact binary grid: crossings can coincide with step boundaries
        t0 = float(draw(st.sampled_from([0.0, 1.0, -2.0, 8.0])))
        tf = t0 + draw(st.sampled_from([1.0, 2.0, -1.0, -4.0]))
    far = draw(st.integers(0, 7)) == 0
    if far:
        # short spans far from t = 0: steps of 1e-3 .. 1e-5 where one ulp of t is 1e-14 .. 1e-13 - the values of an event
        # function a few probe widths from a root are at rounding level
        t0 = float(draw(st.sampled_from([100.0, -250.0, 1000.0, 64.0])))
        tf = t0 + draw(st.sampled_from([0.125, -0.125, 0.03125, 0.5]))
    L = abs(tf - t0)
    kinds = ("const", "rot", "decay") if fam != "splitting" else ("rot",)
    prob = draw(EV.exact_problem(kinds=kinds))
    if prob["kind"] == "rot":
        prob["w"] = prob["w"] * min(1.0, 6.0 / (abs(prob["w"]) * L))     # at most about one revolution
    if prob["kind"] == "decay":
        prob["k"] = [k * min(1.0, 3.0 / (abs(k) * L)) for k in prob["k"]]
    frac = draw(st.sampled_from([1 / 4.0, 1 / 8.0, 1 / 16.0, 0.1, 0.3] if slow else [1 / 4.0, 1 / 8.0, 1 / 16.0, 1 / 32.0, 0.1, 0.3, 0.03]))
    if far and not slow:
        frac = draw(st.sampled_from([1 / 32.0, 1 / 256.0, 1 / 1024.0]))
    elif draw(st.integers(0, 7)) == 0:
        frac = draw(st.sampled_from([1.0, 2.5]))      # an initial step as long as / longer than the whole span (the library halves it)
    nev = draw(st.integers(1, max_events if not slow else 3))
    evs = []
    for i in range(nev):
        if terminal_mode == "none":
            term = False
        elif terminal_mode == "one":
            term = (i == 0)
        else:
            term = None
        evs.append(draw(EV.event_params(prob, t0, tf, terminal=term)))
    tol = draw(st.sampled_from([1e-5, 1e-7, 1e-9]))
    if far and draw(st.booleans()):
        tol = 1e-9
    return dict(part=part, method=method, dtype="float64", prob=prob, t0=t0, tf=tf, dt=L * frac * draw(st.sampled_from([1.0, -1.0])),
                rtol=tol, atol=tol, dense=draw(st.booleans()), events=evs, against=draw(st.integers(0, 5)) == 0)


class Run(object):
    pass


def run(case, target=None, extra_callbacks=(), step_cap=1500):
    """Builds the system and integrates with the case's events. Returns a Run with fields:
       a, P (exact problem), evs (Event objects), err (None | exception | StepCap), snaps [(len(system), len(events))]"""
    import desolver as de
    r = Run()
    P = EV.ExactProblem(case["prob"], case["t0"])
    evs = [EV.Event(p) for p in case["events"]]
    kw = dict(rtol=case["rtol"], atol=case["atol"])
    declared_tf = case["tf"]
    if case.get("against"):
        # the system is declared over the mirrored span; every call is an explicit integrate(t) heading against it
        declared_tf = case["t0"] - (case["tf"] - case["t0"])
        if target is None:
            target = np.float64(case["tf"])
    a = de.OdeSystem(P, y0=P.y0.copy(), t=(case["t0"], declared_tf), dense_output=bool(case["dense"]), dt=case["dt"], **kw)
    a.method = M.get(case["method"])
    snaps = []

    def snap(system):
        snaps.append((len(system), len(system.events), float(system.t[-1])))
    r.a, r.P, r.evs, r.snaps = a, P, evs, snaps
    for ev in evs:
        ev.direction0 = ev.direction
    def monitored(n_call):
        # (optionally each call monitors its own subset of the events)
        sel = evs if case.get("call_events") is None else [evs[i] for i in case["call_events"][n_call]]
        if case.get("as_bound_methods"):
            return [ev.__call__ for ev in sel]        # a new bound-method object per call for the same function
        return sel
    r.calls_end = []
    for n_call, tgt in enumerate(case.get("pre_targets", [])):
        # the span is covered by several integrate() calls, all of them with the events monitored
        r.err = traj.run_integrate(a, np.float64(tgt), step_limit=step_cap, events=monitored(n_call), callbacks=[snap] + list(extra_callbacks))
        r.calls_end.append(len(a))
        if r.err is not None:
            return r
        if n_call == 0 and case.get("dir_after"):
            # the requested direction of an event function is changed (same function object) before the next call
            for ev, d in zip(evs, case["dir_after"]):
                if d is not None:
                    ev.direction = d
    r.err = traj.run_integrate(a, target, step_limit=step_cap, events=monitored(len(case.get("pre_targets", []))), callbacks=[snap] + list(extra_callbacks))
    return r


def g_on_samples(ev, P, t, y):
    """event function evaluated on the recorded samples (derivative events use the user's rhs at the sample)"""
    out = np.empty(len(t))
    for k in range(len(t)):
        dy = np.asarray(P(t[k], y[k]), dtype=np.float64) if ev.kind == "deriv" else None
        out[k] = ev.s * (ev.h(t[k], y[k], dy) - ev.c)
    return out
