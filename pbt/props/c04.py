"""C04 - fixed-step methods take the requested step wherever the time axis sits; shift / reflection invariance.

One case = (method, autonomous linear problem, span (t0, tf) of any sign and direction, dt <= span, shift c).
Three runs: the base run, the run on (t0 + c, tf + c), and the time-reflected run z' = -f(z) on (-t0, -tf).
 Oracle 1 (non-adaptive methods): every recorded step but the last has magnitude |dt| to 8 eps max|t| and none is
          longer; an implicit method without estimator may only be shorter.
 Oracle 2 (shift): the shifted run reaches the same final state: rounding model for fixed-step methods
          (K eps max|t| N L |y|), 50 (atol + rtol |y|) x amplification for adaptive / implicit ones; step counts differ
          by at most one (a last step of rounding size).
 Part `history` (fixed-step explicit / splitting methods): operation lists of integrate(), integrate(t), `tf = ...` (incl.
          targets within dt of t0 after the system has moved), `dt = ...`; model of the requested step D (constructor
          value; replaced by an assignment; halved to half the distance when a call's target is nearer than D): every
          recorded step of a call but the last has magnitude D, none is longer, the call ends on its target.
 Oracle 3 (reflection): the reflected grid is the negated grid and the states agree to 1e-12 relative (fixed step,
          IEEE arithmetic is sign symmetric) or tolerance level (adaptive / implicit).
"""
import math

import numpy as np
from hypothesis import strategies as st

from pbt import methods as M
from pbt import problems as PR
from pbt import traj
from pbt.core import V, Part, exc_sig, exc_origin

ID = "C04"
LEVEL = "exploration"
RULE = ("Hypothesis-generated (method, linear autonomous problem, span, dt, shift). Distinct = SHA-1 of the case JSON. "
        "Non-trivial = t0 != 0 and (backward or mixed-sign span or |shift| > 1).")
ASSUMPTIONS = ["rounding model for the shift relation of fixed-step explicit methods: 1e3 eps max|t| N (1 + L) max|y|",
               "tolerance-level bound for adaptive / implicit methods: 50 (atol + rtol max|y|) x exp(3) amplification cap"]


@st.composite
def _case(draw):
    method = draw(traj.method_name(families=["explicit_fixed", "splitting", "implicit_fixed", "embedded", "implicit_embedded", "richardson"],
                                   weights=[6, 3, 3, 3, 1, 1]))
    fam = M.family(M.get(method))
    t0, tf = draw(traj.span(max_len=6.0))
    L = abs(tf - t0)
    slow = fam in ("implicit_fixed", "implicit_embedded", "richardson")
    frac = draw(st.sampled_from([1 / 4.0, 1 / 8.0, 1 / 16.0, 1 / 64.0, 0.1, 0.05, 0.3, 0.013, 0.5] if not slow else [1 / 4.0, 1 / 8.0, 1 / 16.0, 0.1, 0.3, 0.5]))
    dt = L * frac * draw(st.sampled_from([1.0, -1.0]))
    prob = draw(PR.lin_params(dims=(1, 2, 3) if fam != "splitting" else (2,), horizon=3 * L))
    n = len(prob["A"])
    shift = draw(st.one_of(st.sampled_from([1.0, -1.0, 100.0, -7.5, 0.25]), st.floats(-1e3, 1e3).map(lambda x: round(x, 2))))
    return dict(part="fixed", method=method, dtype="float64", prob=prob, y0=draw(PR.state([n])), t0=t0, tf=tf, dt=dt,
                rtol=1e-7, atol=1e-7, dense=False, shift=shift)


@st.composite
def _history(draw):
    """fixed-step explicit / splitting methods under a history of integrate(), integrate(t), tf / t0 / dt assignments"""
    method = draw(traj.method_name(families=["explicit_fixed", "splitting"], weights=[3, 1]))
    fam = M.family(M.get(method))
    t0, tf = draw(traj.span(max_len=6.0))
    L = abs(tf - t0)
    frac = draw(st.sampled_from([1 / 4.0, 1 / 8.0, 1 / 16.0, 1 / 64.0, 0.1, 0.05, 0.3, 0.013]))
    prob = draw(PR.lin_params(dims=(1, 2) if fam != "splitting" else (2,), horizon=4 * L))
    n = len(prob["A"])
    ops = []
    fr = st.sampled_from([0.01, -0.02, 0.03, 0.5, 1.5, 2.0, -1.0, 1.0, 0.25, 0.002])
    for _ in range(draw(st.integers(2, 6))):
        kind = draw(st.sampled_from(["integrate", "integrate", "integrate_to", "set_tf", "set_tf", "set_dt", "scale_dt", "integrate_to_fault"]))
        if kind == "integrate":
            ops.append([kind])
        elif kind == "integrate_to_fault":
            # integrate(t) during whose LAST (clipped) step the right-hand side raises, at its k-th evaluation inside that step
            ops.append([kind, draw(fr), draw(st.integers(1, 4))])
        elif kind in ("set_dt", "scale_dt"):
            # (scale_dt is `system.dt *= factor`: the array the getter hands out is scaled IN PLACE and then assigned back)
            ops.append([kind, draw(st.sampled_from([0.5, 2.0, 0.3]))])
        else:
            ops.append([kind, draw(fr)])
    ops.append(["integrate"])
    return dict(part="history", method=method, dtype="float64", prob=prob, y0=draw(PR.state([n])), t0=t0, tf=tf, dt=L * frac,
                rtol=1e-7, atol=1e-7, dense=False, ops=ops)


def parts(tier):
    q = tier == "quick"
    return [Part("fixed", strategy=_case(), examples=900 if q else 20000, timeout=300),
            Part("history", strategy=_history(), examples=600 if q else 12000, timeout=300),
            Part("implicit_steps", strategy=_implicit_steps(), examples=400 if q else 8000, timeout=300)]


@st.composite
def _implicit_steps(draw):
    """implicit methods without an error estimator on mild linear problems, with the library's DEFAULT tolerances or given ones,
    states of size 1 .. 1e6: a step may only be shorter than requested after a stage solve that failed"""
    method = draw(traj.method_name(families=["implicit_fixed"]))
    t0, tf = draw(traj.span(max_len=3.0))
    L = abs(tf - t0)
    n = draw(st.sampled_from([1, 2]))
    A = [[draw(st.integers(-6, 6)) / (4.0 * max(L, 1.0)) for _ in range(n)] for _ in range(n)]
    return dict(part="implicit_steps", method=method, dtype=draw(st.sampled_from(["float64", "float64", "float32"])), prob=dict(kind="lin", A=A, horizon=3 * L),
                y0=[draw(st.sampled_from([1.0, -0.5, 2.0])) for _ in range(n)], yscale=draw(st.sampled_from([1.0, 1.0, 30.0, 1e3, 1e6, 1e-4])),
                t0=t0, tf=tf, dt=L * draw(st.sampled_from([1 / 4.0, 1 / 8.0, 1 / 16.0, 0.1, 0.3, 0.07])),
                rtol=draw(st.sampled_from([None, None, 1e-6, 1e-9])), dense=False)



def _check_history(case):
    """Model of the requested step D: the constructor's dt; `dt = x` replaces it; a call whose target is nearer than D
    replaces it by half the distance (the library's documented rule, which persists). Every recorded step of a call but
    the last has magnitude D, none is longer, the last is the remainder."""
    import desolver as de
    method = case["method"]
    fam = M.family(M.get(method))
    attrs = dict(method=method, family=fam)
    t0, span = case["t0"], case["tf"] - case["t0"]
    eps = float(np.finfo(np.float64).eps)
    labels = ["history:" + fam]
    armed = {}

    class Boom(Exception):
        pass

    def wrapper(rhs):
        def wrapped(t, y, **kw):
            if armed and armed["lo"] <= float(t) <= armed["hi"]:
                armed["k"] -= 1
                if armed["k"] <= 0:
                    armed.clear()
                    raise Boom("injected in the clipped last step")
            return rhs(t, y, **kw)
        return wrapped
    a, f, y0 = traj.make_system(case, rhs_wrapper=wrapper)
    Dreq = abs(case["dt"])
    viols = []
    moved_then_tf = False
    calls = 0
    hist = []
    for op in case["ops"]:
        kind = op[0]
        hist.append(kind if len(op) == 1 else "{}({})".format(kind, op[1]))
        if kind == "set_dt":
            a.dt = float(a.dt) * op[1]
            Dreq = abs(float(a.dt))
            continue
        if kind == "scale_dt":
            before_ = abs(float(a.dt))
            a.dt *= op[1]
            Dreq = abs(float(a.dt))
            if abs(Dreq - before_ * op[1]) > 1e-12 * Dreq:
                viols.append(V("dt_assignment", "`system.dt *= {}` turned dt = {!r} into {!r}".format(op[1], before_, Dreq), fam, **attrs))
                break
            continue
        if kind == "set_tf":
            try:
                a.tf = t0 + op[1] * span
            except ValueError:
                labels.append("tf_rejected")
            else:
                if len(a) > 1:
                    moved_then_tf = True
            continue
        cur = float(a.t[-1])
        target = float(a.tf) if kind == "integrate" else float(t0 + op[1] * span)
        dist = abs(target - cur)
        if dist <= 64 * eps * max(1.0, abs(cur), abs(target)):
            err = traj.run_integrate(a, None if kind == "integrate" else np.float64(target), step_limit=len(a) + 140)
            if err is not None:
                labels.append("capped" if isinstance(err, traj.StepCap) else "raised_near_target")
                break
            continue
        if Dreq > dist:
            Dreq = 0.5 * dist
        need = int(math.ceil(dist / Dreq)) + 2
        if need > 4000:
            labels.append("skipped:long_call")
            break
        n_before = len(a)
        if kind == "integrate_to_fault":
            nfull = int(math.floor(dist / Dreq + 1e-9))
            rem = dist - nfull * Dreq
            sg = 1.0 if target > cur else -1.0
            # (only where the model is unambiguous: a remainder clearly between nothing and a whole step, and a method whose stage
            #  times lie inside its step - the splitting schemes have sub-steps that reach outside it)
            if 1e-6 * Dreq < rem < (1 - 1e-6) * Dreq and fam == "explicit_fixed":
                boundary = cur + sg * nfull * Dreq
                armed.update(lo=min(boundary, target) - 1e-9 * Dreq + (0.02 * rem if sg > 0 else 0.0), hi=max(boundary, target) + 1e-9 * Dreq - (0.02 * rem if sg < 0 else 0.0), k=op[2])
                err = traj.run_integrate(a, np.float64(target), step_limit=n_before + need, injected=(Boom,))
                fired = not armed
                armed.clear()
                if fired and err is not None and isinstance(getattr(err, "__cause__", None), Boom):
                    labels.append("fault_in_clipped_last_step")
                    hist[-1] += "[raised]"
                    t = np.asarray(a.t, dtype=np.float64)[n_before - 1:]
                    steps = np.abs(np.diff(t))
                    tolr = 8 * eps * max(1.0, float(np.max(np.abs(t))))
                    if len(steps) != nfull or np.any(np.abs(steps - Dreq) > tolr):
                        viols.append(V("prefix_after_fault", "{}: after {} the failed call kept steps {} where {} steps of {!r} were complete".format(method, hist, steps.tolist()[:8], nfull, Dreq), fam, **attrs))
                        break
                    continue        # the requested step is unchanged by a failed call
                if err is None and not fired:
                    pass            # (the armed evaluation was never made: the call completed; judged below like integrate(t))
                elif err is not None and not isinstance(err, traj.StepCap):
                    viols.append(V("integrate_raised", "{}: after {}: {!r} caused by {!r}".format(method, hist, err, err.__cause__), fam + exc_sig(err), **attrs))
                    break
            else:
                err = traj.run_integrate(a, np.float64(target), step_limit=n_before + need)
        else:
            err = traj.run_integrate(a, None if kind == "integrate" else np.float64(target), step_limit=n_before + need)
        if isinstance(err, traj.StepCap):
            viols.append(V("too_many_steps", "{}: after {} the call from {!r} to {!r} recorded more than ceil(distance / requested step) + 2 = {} steps (requested step {!r}, system dt {!r})".format(
                method, hist, cur, target, need, Dreq, float(a.dt)), fam, **attrs))
            break
        if err is not None:
            viols.append(V("integrate_raised", "{}: after {}: {!r} caused by {!r}".format(method, hist, err, err.__cause__), fam + exc_sig(err), **attrs))
            break
        calls += 1
        t = np.asarray(a.t, dtype=np.float64)[n_before - 1:]
        steps = np.abs(np.diff(t))
        tolr = 8 * eps * max(1.0, float(np.max(np.abs(t))))
        if len(steps) and (np.any(steps > Dreq + tolr) or np.any(np.abs(steps[:-1] - Dreq) > tolr)):
            k = int(np.argmax(np.abs(steps[:-1] - Dreq) > tolr)) if len(steps) > 1 and np.any(np.abs(steps[:-1] - Dreq) > tolr) else len(steps) - 1
            viols.append(V("step_not_requested", "{}: after {} the call from {!r} to {!r} took a step of {!r} (step {} of {}) where {!r} was requested".format(
                method, hist, cur, target, float(steps[k]), k, len(steps), Dreq), fam, **attrs))
            break
        if abs(float(t[-1]) - target) > 64 * eps * max(1.0, abs(target)):
            viols.append(V("end_time", "{}: after {} the call to {!r} ended at {!r}".format(method, hist, target, float(t[-1])), fam, **attrs))
            break
    if moved_then_tf:
        labels.append("tf_assigned_after_moving")
    return viols, dict(nontrivial=bool(calls >= 2), labels=labels)


def _run(case, fam):
    a, f, y0 = traj.make_system(case)
    L = abs(case["tf"] - case["t0"])
    if fam in ("explicit_fixed", "splitting"):
        limit = int(math.ceil(L / abs(case["dt"]))) + 3
    else:
        limit = 300 if fam in ("implicit_fixed", "implicit_embedded", "richardson") else 3000   # cost caps only
    err = traj.run_integrate(a, step_limit=limit)
    return a, f, y0, err, limit


class _NewtonRecorder(object):
    """wraps integrator.step on the instance: (start time, offered step, whether the stage solve converged)"""

    def __init__(self, integ):
        self.attempts = []
        inner = integ.step

        def rec(rhs, initial_time, initial_state, constants, timestep):
            out = inner(rhs, initial_time, initial_state, constants, timestep)
            self.attempts.append((float(initial_time), float(timestep), bool(integ.solver_dict.get("newton_iteration_success", True))))
            return out
        integ.step = rec


def _check_implicit_steps(case):
    import desolver as de
    method = case["method"]
    fam = M.family(M.get(method))
    dtp = M.DTYPES[case["dtype"]]
    attrs = dict(method=method, family=fam, dtype=case["dtype"])
    labels = ["family:" + fam, "implicit_steps:" + method, "tolerances:" + ("default" if case["rtol"] is None else "given"), "state_scale:{:g}".format(case["yscale"]), "dtype:" + case["dtype"]]
    c = dict(case, y0=[v * case["yscale"] for v in case["y0"]], atol=case["rtol"])
    if case["dtype"] == "float32":
        c["t0"], c["tf"] = float(np.float32(case["t0"])), float(np.float32(case["tf"]))
        if c["rtol"] is not None:
            c["rtol"] = c["atol"] = 1e-4
    a, f, y0 = traj.make_system(c)
    rec = _NewtonRecorder(a.integrator)
    dt_req = abs(float(a.dt))
    err = traj.run_integrate(a, step_limit=400)
    if isinstance(err, traj.StepCap):
        return [V("too_many_steps", "{}: more than 400 recorded steps for span / dt = {:.1f} (state scale {:g}, {} tolerances)".format(
            method, abs(c["tf"] - c["t0"]) / dt_req, case["yscale"], "default" if case["rtol"] is None else "given"), fam, **attrs)], dict(nontrivial=False, labels=labels)
    if err is not None:
        cause = err.__cause__
        if isinstance(cause, (de.exception_types.FailedToMeetTolerances, np.linalg.LinAlgError)):
            return [], dict(nontrivial=False, labels=labels + ["reported_failure"])
        return [V("integrate_raised", "{} raised {!r} caused by {!r}".format(method, err, cause), fam + exc_sig(err), **attrs)], dict(nontrivial=False, labels=labels)
    t = np.asarray(a.t, dtype=np.float64)
    eps = float(np.finfo(dtp).eps)
    tmax = max(abs(c["t0"]), abs(c["tf"]), 1.0)
    tol = 8 * eps * tmax
    viols = []
    groups = []
    for (ts, h, ok) in rec.attempts:
        if groups and groups[-1][0] == ts:
            groups[-1][1].append((h, ok))
        else:
            groups.append((ts, [(h, ok)]))
    shortened = 0
    for k, (ts, atts) in enumerate(groups):
        remaining = abs(c["tf"] - ts)
        want = min(dt_req, remaining)
        h0 = abs(atts[0][0])
        if abs(h0 - want) > tol + 4 * eps * want:
            viols.append(V("step_not_requested", "{}: the step starting at t = {!r} was first attempted with |h| = {!r} where {!r} was requested (no stage solve had failed; state scale {:g}, {} tolerances)".format(
                method, ts, h0, want, case["yscale"], "default" if case["rtol"] is None else "given"), fam, **attrs))
            break
        for (h_prev, ok_prev), (h_next, _) in zip(atts, atts[1:]):
            # (a retry follows a failed stage solve and is never longer; the library retries a fixed-step implicit method at
            #  0.8 h repeatedly, which the property does not forbid)
            if ok_prev or not abs(h_next) <= abs(h_prev):
                viols.append(V("retry_without_failure", "{}: at t = {!r} the attempt with |h| = {!r} (stage solve {}) was followed by one with |h| = {!r}".format(
                    method, ts, abs(h_prev), "converged" if ok_prev else "failed", abs(h_next)), fam, **attrs))
                break
        if len(atts) > 1:
            shortened += 1
        if viols:
            break
    steps = np.abs(np.diff(t))
    if not viols and len(steps) and np.any(steps > dt_req + tol):
        viols.append(V("step_longer", "{}: a recorded step of length {!r} exceeds the requested {!r}".format(method, float(np.max(steps)), dt_req), fam, **attrs))
    return viols, dict(nontrivial=bool(len(groups) >= 3), labels=labels + (["a_stage_solve_failed_and_the_step_was_retried"] if shortened else []), counts=dict(recorded_steps=len(steps)))


def check(case):
    if case["part"] == "history":
        return _check_history(case)
    if case["part"] == "implicit_steps":
        return _check_implicit_steps(case)
    import desolver as de
    method = case["method"]
    fam = M.family(M.get(method))
    attrs = dict(method=method, family=fam)
    t0, tf, dt = case["t0"], case["tf"], case["dt"]
    labels = ["family:" + fam] + traj.span_class(t0, tf)
    eps = float(np.finfo(np.float64).eps)
    viols = []
    nontrivial = bool(t0 != 0 and (tf < t0 or ((t0 < 0) != (tf < 0)) or abs(case["shift"]) > 1))

    def fail(err, which):
        cause = getattr(err, "__cause__", None)
        if isinstance(err, traj.StepCap):
            if fam in ("explicit_fixed", "splitting"):
                return [V("too_many_steps", "{} ({} run): more than ceil(|span|/|dt|) + 3 steps for span ({!r}, {!r}) dt {!r}".format(method, which, t0, tf, dt), fam, **attrs)]
            labels.append("capped")
            return []
        if isinstance(cause, de.exception_types.FailedToMeetTolerances) and fam not in ("explicit_fixed", "splitting"):
            labels.append("reported_failure")
            return []
        return [V("integrate_raised", "{} ({} run) raised {!r} caused by {!r}".format(method, which, err, cause), fam + exc_sig(err), **attrs)]

    try:
        a, f, y0, err, limit = _run(case, fam)
    except Exception as e:
        if exc_origin(e)[0] == "harness":
            raise
        return [V("construction_raised", "{!r}".format(e), fam + exc_sig(e), **attrs)], dict(nontrivial=False, labels=labels)
    if err is not None:
        return fail(err, "base"), dict(nontrivial=False, labels=labels)
    t = np.asarray(a.t, dtype=np.float64)
    y = np.asarray(a.y, dtype=np.float64)
    N = len(t) - 1
    tmax = max(abs(t0), abs(tf), 1.0)
    # ---- oracle 1: step sizes
    if fam in ("explicit_fixed", "splitting", "implicit_fixed"):
        steps = np.abs(np.diff(t))
        tol = 8 * eps * tmax
        if np.any(steps > abs(dt) + tol):
            k = int(np.argmax(steps > abs(dt) + tol))
            viols.append(V("step_longer", "{}: recorded step {} has length {!r} > requested dt {!r} (span ({!r}, {!r}))".format(method, k, float(steps[k]), abs(dt), t0, tf), fam, **attrs))
        elif fam != "implicit_fixed" and N >= 1 and np.any(np.abs(steps[:-1] - abs(dt)) > tol):
            k = int(np.argmax(np.abs(steps[:-1] - abs(dt)) > tol))
            viols.append(V("step_size", "{}: recorded step {} of {} has length {!r} != requested dt {!r} (span ({!r}, {!r}))".format(method, k, N, float(steps[k]), abs(dt), t0, tf), fam, **attrs))
        if fam == "implicit_fixed" and N >= 1 and np.any(np.abs(steps[:-1] - abs(dt)) > tol):
            labels.append("implicit_step_shortened")
    if viols:
        return viols, dict(nontrivial=nontrivial, labels=labels)
    ymax = float(np.max(np.abs(y))) + 1e-300
    Lf = f.lipschitz()
    loose = 50 * (case["atol"] + case["rtol"] * ymax) * math.exp(3.0)
    # ---- oracle 2: shift
    c = case["shift"]
    sc = dict(case, t0=float(np.float64(t0) + np.float64(c)), tf=float(np.float64(tf) + np.float64(c)))
    a2, _, _, err2, _ = _run(sc, fam)
    if err2 is not None:
        viols += fail(err2, "shifted by {!r}".format(c))
    else:
        t2 = np.asarray(a2.t, dtype=np.float64)
        y2 = np.asarray(a2.y, dtype=np.float64)
        N2 = len(t2) - 1
        tmax2 = max(tmax, abs(sc["t0"]), abs(sc["tf"]))
        if fam in ("explicit_fixed", "splitting"):
            allowed = 1e3 * eps * tmax2 * max(N, 1) * (1 + Lf) * ymax
            if abs(N - N2) > 1:
                viols.append(V("shift_step_count", "{}: {} steps on ({!r}, {!r}) but {} on the span shifted by {!r}".format(method, N, t0, tf, N2, c), fam, **attrs))
        else:
            allowed = loose
        d = float(np.max(np.abs(y[-1] - y2[-1])))
        if not d <= allowed:
            viols.append(V("shift_state", "{}: final state on ({!r}, {!r}) and on the span shifted by {!r} differ by {:.3e} (allowed {:.3e}) for an autonomous problem; steps {} vs {}".format(
                method, t0, tf, c, d, allowed, N, N2), fam, **attrs))
    # ---- oracle 3: reflection  z' = -f(z),  t -> -t
    A = np.asarray(f.A)
    rc = dict(case, t0=-t0, tf=-tf, dt=-dt, prob=dict(kind="lin", A=(-A).tolist(), horizon=0.0))
    a3, _, _, err3, _ = _run(rc, fam)
    if err3 is not None:
        viols += fail(err3, "reflected")
    else:
        t3 = np.asarray(a3.t, dtype=np.float64)
        y3 = np.asarray(a3.y, dtype=np.float64)
        if fam in ("explicit_fixed", "splitting"):
            if len(t3) != len(t) or not np.array_equal(t3, -t):
                viols.append(V("reflection_grid", "{}: the grid of the time-reflected run is not the negated grid: {} vs {} points, first difference at index {}".format(
                    method, len(t3), len(t), int(np.argmax(t3[:min(len(t), len(t3))] != -t[:min(len(t), len(t3))]))), fam, **attrs))
            else:
                d = float(np.max(np.abs(y3 - y)))
                if not d <= 1e-12 * ymax:
                    viols.append(V("reflection_state", "{}: states of the time-reflected run differ by {:.3e} (relative {:.3e})".format(method, d, d / ymax), fam, **attrs))
        else:
            d = float(np.max(np.abs(y3[-1] - y[-1])))
            if not d <= loose:
                viols.append(V("reflection_state", "{}: final state of the time-reflected run differs by {:.3e} (allowed {:.3e})".format(method, d, loose), fam, **attrs))
    return viols, dict(nontrivial=nontrivial, labels=labels, counts=dict(recorded_steps=N))
