"""C10 - symplectic methods produce symplectic, time-reversible maps.

Methods: every class flagged `symplectic` (3 explicit splitting schemes, Gauss-Legendre 4/6, implicit midpoint).
Parts
  linear     random positive definite quadratic Hamiltonians H = 1/2 p.A p + 1/2 q.B q (dimension 2..8): the step map is
             linear, so its matrix M is obtained EXACTLY by stepping the basis vectors; oracle |M^T J M - J| <= tol.
             Kick masks: the contiguous default, and - set through the public OdeSystem.set_kick_vars /
             set_method(..., staggered_mask=...) and read back from system.integrator - "first half" and interleaved
             layouts with the matching permuted J (the state layout of the generated Hamiltonian follows the mask, so a
             mask that is silently ignored shows up as a non-symplectic map).
  nonlinear  separable nonlinear Hamiltonians (pendulum chain, quartic): M by a 4th-order central difference of the
             one-step map (longdouble for explicit schemes, float64 with Newton tolerance 1e-13 for implicit ones),
             and reversibility: a step of h followed by a step of -h (fresh integrator) returns the start.
  energy     long fixed-step runs on the pendulum chain: the energy error over the last quarter is at most 3 x that of
             the first quarter (no secular drift) and bounded by C h^2 |H|.
"""
import math

import numpy as np
from hypothesis import strategies as st

from pbt import methods as M
from pbt.core import V, Part, exc_sig, exc_origin

ID = "C10"
LEVEL = "exploration"
RULE = ("Hypothesis-generated (method, Hamiltonian, dimension, mask layout, state, h of either sign). Distinct = SHA-1 of the case "
        "JSON. Non-trivial = nonlinear Hamiltonian, or dimension >= 4, or a non-default kick mask.")
ASSUMPTIONS = ["symplecticity defect tolerance: 1e-11 (linear, exact map; explicit), 1e-8 (linear, implicit, Newton tolerance 1e-13), 1e-9 / 1e-6 (finite-difference map)",
               "reversibility tolerance 1e3 eps (explicit), 1e-9 (implicit)"]

LD = np.longdouble
_fr = st.integers(-4, 4).map(lambda k: k / 4.0)


def _sym_names():
    return list(M.names("symplectic"))


@st.composite
def _spd(draw, d):
    Lm = [[draw(_fr) / 2.0 if j < i else (1.0 + abs(draw(_fr)) if j == i else 0.0) for j in range(d)] for i in range(d)]
    return Lm   # Cholesky-like factor: A = L L^T


@st.composite
def _case(draw, part):
    method = draw(st.sampled_from(_sym_names()))
    implicit = M.is_implicit(method)
    d = draw(st.sampled_from([1, 2, 3, 4] if not implicit else [1, 2]))
    layout = "default" if implicit else draw(st.sampled_from(["default", "default", "first_half", "interleaved"]))
    h = draw(st.sampled_from([0.001, 0.01, 0.05, 0.1, 0.3, 1.0] if part != "energy" else [0.02, 0.05, 0.1])) * draw(st.sampled_from([1.0, -1.0]))
    c = dict(part=part, method=method, d=d, layout=layout, h=h, LA=draw(_spd(d)), LB=draw(_spd(d)),
             q=draw(st.lists(_fr.map(lambda x: 2 * x), min_size=d, max_size=d)), p=draw(st.lists(_fr.map(lambda x: 2 * x), min_size=d, max_size=d)),
             mask_via=draw(st.sampled_from(["set_kick_vars", "set_method"])), shape2d=draw(st.sampled_from([None, None, "rows", "rowvec"])))
    if part != "linear":
        c["ham"] = draw(st.sampled_from(["pendulum_chain", "quartic"]))
        c["k"] = draw(st.sampled_from([0.0, 0.5, 1.0]))
        # keep h x (local Lipschitz constant) moderate: the schemes have negative sub-steps and amplify rounding otherwise
        c["q"] = [x / 2.0 for x in c["q"]]
        c["p"] = [x / 2.0 for x in c["p"]]
        c["h"] = math.copysign(min(abs(c["h"]), 0.1), c["h"])
    if part == "energy":
        c["layout"] = "default"
    if part == "nonlinear":
        # the Jacobian of the map is probed on ONE integrator object that has just stepped to the probed point (a
        # continuation), each probe differing from the reached state in a single component
        c["warm"] = draw(st.booleans())
    return c


def parts(tier):
    q = tier == "quick"
    return [Part("linear", strategy=_case("linear"), examples=300 if q else 6000, timeout=300),
            Part("nonlinear", strategy=_case("nonlinear"), examples=200 if q else 4000, timeout=300),
            Part("energy", strategy=_case("energy"), examples=32 if q else 400, timeout=600)]


# --------------------------------------------------------------------------------------------------
class Ham(object):
    def __init__(self, case):
        self.case = case
        d = self.d = case["d"]
        n = self.n = 2 * d
        LA, LB = np.asarray(case["LA"], dtype=np.float64), np.asarray(case["LB"], dtype=np.float64)
        self.A, self.B = LA @ LA.T, LB @ LB.T
        lay = case["layout"]
        if lay == "default":
            kick = np.arange(d, n)
        elif lay == "first_half":
            kick = np.arange(0, d)
        else:
            kick = np.arange(1, n, 2)
        self.kick = kick
        self.drift = np.array([i for i in range(n) if i not in set(kick.tolist())])
        self.mask = np.zeros(n, dtype=bool)
        self.mask[kick] = True
        J = np.zeros((n, n))
        for i in range(d):
            J[self.drift[i], self.kick[i]] = 1.0
            J[self.kick[i], self.drift[i]] = -1.0
        self.J = J
        self.kind = case.get("ham", "quadratic")
        self.k = case.get("k", 0.0)

    def state(self, q, p, dtype=np.float64):
        y = np.zeros(self.n, dtype=dtype)
        y[self.drift] = q
        y[self.kick] = p
        return y

    def dT(self, p):
        A = self.A.astype(p.dtype)
        if self.kind == "quartic":
            return A @ p + p.dtype.type(self.k) * p ** 3
        return A @ p

    def dV(self, q):
        if self.kind == "quadratic":
            return self.B.astype(q.dtype) @ q
        if self.kind == "pendulum_chain":
            out = np.sin(q)
            if self.d > 1 and self.k:
                diff = q[:-1] - q[1:]
                out = out.copy()
                out[:-1] += q.dtype.type(self.k) * diff
                out[1:] -= q.dtype.type(self.k) * diff
            return out
        return self.B.astype(q.dtype) @ q + q ** 3

    def H(self, y):
        q, p = y[self.drift], y[self.kick]
        T = 0.5 * p @ (self.A.astype(y.dtype) @ p) + (0.25 * self.k * np.sum(p ** 4) if self.kind == "quartic" else 0.0)
        if self.kind == "quadratic":
            Vv = 0.5 * q @ (self.B.astype(y.dtype) @ q)
        elif self.kind == "pendulum_chain":
            Vv = np.sum(1 - np.cos(q)) + (0.5 * self.k * np.sum((q[:-1] - q[1:]) ** 2) if self.d > 1 else 0.0)
        else:
            Vv = 0.5 * q @ (self.B.astype(y.dtype) @ q) + 0.25 * np.sum(q ** 4)
        return T + Vv

    def rhs(self, t, y, **kw):
        y = np.asarray(y)
        out = np.zeros_like(y)
        q, p = y[self.drift], y[self.kick]
        out[self.drift] = self.dT(p)
        out[self.kick] = -self.dV(q)
        return out


def _step_direct(name, Hm, y, h, dtype, tol=1e-13):
    from desolver import DiffRHS
    integ = M.get(name)(sys_dim=(Hm.n,), dtype=dtype, rtol=tol, atol=tol)
    _, (dT, dY) = integ(DiffRHS(Hm.rhs), dtype(0.0), y.astype(dtype), {}, dtype(h))
    if abs(float(dT) - float(h)) > 1e-12 * abs(h):
        raise RuntimeError("step shortened")
    return (y.astype(dtype) + np.asarray(dY, dtype=dtype))


def _round_trip_same_object(name, Hm, y, h, dtype, tol=1e-13):
    """h then -h on ONE integrator object, the step handed over as a 0-d array (the type OdeSystem passes) that is negated in
    place between the two calls; returns (state after the round trip, dT of the first call, dT of the second call)"""
    from desolver import DiffRHS
    integ = M.get(name)(sys_dim=(Hm.n,), dtype=dtype, rtol=tol, atol=tol)
    rhs = DiffRHS(Hm.rhs)
    hh = np.array(h, dtype=dtype)
    y = y.astype(dtype)
    _, (dT, dY) = integ(rhs, dtype(0.0), y, {}, hh)
    dT, y1 = dtype(dT), (y + np.asarray(dY, dtype=dtype))
    hh *= -1
    _, (dT2, dY2) = integ(rhs, dtype(0.0) + dT, y1, {}, hh)
    return y1 + np.asarray(dY2, dtype=dtype), float(dT), float(dT2)


def _step_system(name, Hm, y, h, case):
    """one step through the public OdeSystem with the kick mask set through the public API; returns (y1, mask read back)"""
    import desolver as de
    # the state may be handed over with more than one axis (the mask has the shape of the state): rows (q_i, p_i) for the
    # interleaved layout, or a (1, 2d) row vector
    shp = {"rows": (Hm.n // 2, 2), "rowvec": (1, Hm.n)}.get(case.get("shape2d")) if (case.get("shape2d") != "rows" or case["layout"] == "interleaved") else None
    if shp is None:
        rhs, y_in, mask_in = Hm.rhs, np.asarray(y, dtype=np.float64), Hm.mask.copy()
    else:
        def rhs(t, Y, **kw):
            return Hm.rhs(t, np.asarray(Y).reshape(-1)).reshape(shp)
        y_in, mask_in = np.asarray(y, dtype=np.float64).reshape(shp), Hm.mask.copy().reshape(shp)
    a = de.OdeSystem(rhs, y0=y_in, t=(0.0, h), dt=abs(h), rtol=1e-13, atol=1e-13)
    if case["mask_via"] == "set_method":
        a.set_method(M.get(name), staggered_mask=mask_in)
    else:
        a.method = M.get(name)
        a.set_kick_vars(mask_in)
    used = getattr(a.integrator, "staggered_mask", None)
    a.integrate()
    if len(a) != 2:
        raise RuntimeError("expected one step, got {}".format(len(a) - 1))
    return np.asarray(a.y[-1], dtype=np.float64).reshape(-1), (None if used is None else np.asarray(used, dtype=bool).reshape(-1).copy())


def _defect(Mx, J):
    return float(np.max(np.abs(Mx.T @ J @ Mx - J)))


def check(case):
    name = case["method"]
    implicit = M.is_implicit(name)
    Hm = Ham(case)
    n = Hm.n
    h = case["h"]
    part = case["part"]
    attrs = dict(method=name, layout=case["layout"], via=case["mask_via"] if case["layout"] != "default" else "default")
    labels = ["method:" + name, "layout:" + case["layout"], "dim:{}".format(n), "ham:" + Hm.kind, "h<0" if h < 0 else "h>0"]
    sig = "{}:{}".format(name, case["layout"])
    nontrivial = bool(Hm.kind != "quadratic" or n >= 4 or case["layout"] != "default")
    viols = []
    y0 = Hm.state(np.asarray(case["q"], dtype=np.float64), np.asarray(case["p"], dtype=np.float64))
    from desolver.exception_types import FailedToMeetTolerances
    try:
        if part == "linear":
            cols = []
            for i in range(n):
                e = np.zeros(n)
                e[i] = 1.0
                if case["layout"] == "default" and (implicit or True):
                    y1 = _step_direct(name, Hm, e, h, np.longdouble if not implicit else np.float64)
                else:
                    y1, used = _step_system(name, Hm, e, h, case)
                    if used is None or not np.array_equal(used.reshape(-1), Hm.mask):
                        viols.append(V("mask_not_applied", "{}: kick mask {} set through {} but the integrator works with {}".format(
                            name, Hm.mask.astype(int).tolist(), case["mask_via"], None if used is None else used.astype(int).reshape(-1).tolist()), sig, **attrs))
                        break
                cols.append(np.asarray(y1, dtype=np.float64))
            if not viols:
                Mx = np.stack(cols, axis=1)
                defect = _defect(Mx, Hm.J)
                tol = 1e-8 if implicit else 1e-11
                tol *= max(1.0, float(np.max(np.abs(Mx))) ** 2)
                if not defect <= tol:
                    viols.append(V("not_symplectic", "{} ({} mask, dim {}): |M^T J M - J| = {:.3e} for the exact one-step matrix of a quadratic Hamiltonian, h = {} (allowed {:.1e})".format(
                        name, case["layout"], n, defect, h, tol), sig, **attrs))
                return viols, dict(nontrivial=nontrivial, labels=labels, metrics={"defect/tol:linear": defect / tol})
        elif part == "nonlinear":
            dt = np.float64 if implicit else np.longdouble
            delta = 1e-4 if implicit else 1e-3
            if case["layout"] != "default":
                step = lambda yy: _step_system(name, Hm, np.asarray(yy, dtype=np.float64), h, case)[0].astype(np.float64)
                dt, delta = np.float64, 1e-4
                y1, used = _step_system(name, Hm, y0, h, case)
                if used is None or not np.array_equal(used.reshape(-1), Hm.mask):
                    viols.append(V("mask_not_applied", "{}: kick mask {} set through {} but the integrator works with {}".format(
                        name, Hm.mask.astype(int).tolist(), case["mask_via"], None if used is None else used.astype(int).reshape(-1).tolist()), sig, **attrs))
                    return viols, dict(nontrivial=nontrivial, labels=labels)
            elif case.get("warm"):
                from desolver import DiffRHS
                winteg = M.get(name)(sys_dim=(Hm.n,), dtype=dt, rtol=1e-13, atol=1e-13)
                wrhs = DiffRHS(Hm.rhs)

                y_start = y0.astype(dt).copy()

                def warm_up():
                    _, (dT0, dY0) = winteg(wrhs, dt(-h), y_start, {}, dt(h))
                    return dt(-h) + dT0, (y_start + np.asarray(dY0, dtype=dt))
                t_reached, y_reached = warm_up()

                def step(yy):
                    tr, _ = warm_up()           # the same object has just arrived at (t_reached, y_reached) ...
                    _, (dT, dY) = winteg(wrhs, tr, np.asarray(yy, dtype=dt), {}, dt(h))      # ... and steps on from an edited state
                    if abs(float(dT) - float(h)) > 1e-12 * abs(h):
                        raise RuntimeError("step shortened")
                    return np.asarray(yy, dtype=dt) + np.asarray(dY, dtype=dt)
                y0 = np.asarray(y_reached, dtype=np.float64)
                labels.append("probed_on_a_continuing_integrator")
            else:
                step = lambda yy: _step_direct(name, Hm, np.asarray(yy), h, dt)
            cols = []
            yb = y0.astype(dt) if not case.get("warm") or case["layout"] != "default" else y_reached
            for i in range(n):
                e = np.zeros(n, dtype=dt)
                e[i] = delta
                col = (-step(yb + 2 * e) + 8 * step(yb + e) - 8 * step(yb - e) + step(yb - 2 * e)) / (12 * dt(delta))
                cols.append(np.asarray(col, dtype=np.float64))
            Mx = np.stack(cols, axis=1)
            defect = _defect(Mx, Hm.J)
            tol = (1e-6 if (implicit or dt is np.float64) else 1e-9) * max(1.0, float(np.max(np.abs(Mx))) ** 2)
            if not defect <= tol:
                viols.append(V("not_symplectic", "{} ({} mask, dim {}, {}): |M^T J M - J| = {:.3e} for the Jacobian of the one-step map at a generic state, h = {} (allowed {:.1e})".format(
                    name, case["layout"], n, Hm.kind, defect, h, tol), sig, **attrs))
            # reversibility
            if case["layout"] == "default":
                y1 = step(yb)
                back = _step_direct(name, Hm, np.asarray(y1), -h, dt)
                err = float(np.max(np.abs(np.asarray(back, dtype=np.float64) - y0)))
                rtol = (1e-9 if implicit else 1e3 * float(np.finfo(dt).eps)) * (1 + float(np.max(np.abs(y0))) + float(np.max(np.abs(np.asarray(y1, dtype=np.float64)))))
                if not err <= rtol:
                    viols.append(V("not_reversible", "{} ({}): a step of h = {} followed by a step of -h misses the start by {:.3e} (allowed {:.1e})".format(name, Hm.kind, h, err, rtol), sig, **attrs))
                if not viols:
                    back2, dTa, dTb = _round_trip_same_object(name, Hm, np.asarray(y0), h, dt)
                    err2 = float(np.max(np.abs(np.asarray(back2, dtype=np.float64) - y0)))
                    labels.append("round_trip_on_one_object_with_the_step_array_negated_in_place")
                    if abs(dTa - h) <= 1e-12 * abs(h) and not (abs(dTb + h) <= 1e-12 * abs(h) and err2 <= rtol):
                        viols.append(V("not_reversible", "{} ({}): on one integrator object, a step of h = {} and then a step with the same 0-d step array negated in place (dT = {!r}) misses the start by {:.3e} (allowed {:.1e})".format(
                            name, Hm.kind, h, dTb, err2, rtol), sig + ":same_object", **attrs))
            return viols, dict(nontrivial=nontrivial, labels=labels, metrics={"defect/tol:nonlinear": defect / tol})
        else:
            from desolver import DiffRHS
            nsteps = 600 if implicit else 2000
            integ = M.get(name)(sys_dim=(n,), dtype=np.float64, rtol=1e-12, atol=1e-12)
            rhs = DiffRHS(Hm.rhs)
            y = y0.copy()
            t = np.float64(0.0)
            H0 = float(Hm.H(y))
            errs = []
            for _ in range(nsteps):
                _, (dT, dY) = integ(rhs, t, y, {}, np.float64(h))
                y = y + dY
                t = t + dT
                errs.append(abs(float(Hm.H(y)) - H0))
            errs = np.asarray(errs)
            q1, q4 = float(np.max(errs[:nsteps // 4])), float(np.max(errs[-nsteps // 4:]))
            scaleH = abs(H0) + float(np.max(np.abs(y0))) ** 2 + 1.0
            order = M.order(name)
            bound = 50 * scaleH * abs(h) ** min(order, 2)
            # implicit schemes are solved to a Newton tolerance of 1e-12 per step: that residual accumulates over the run
            floor = (1e-11 if not implicit else 10 * nsteps * 1e-12) * scaleH
            if not np.all(np.isfinite(errs)) or q4 > 3 * q1 + floor:
                viols.append(V("energy_drift", "{} ({}, h = {}): energy error grows from {:.3e} (first quarter) to {:.3e} (last quarter of {} steps)".format(name, Hm.kind, h, q1, q4, nsteps), sig, **attrs))
            elif q4 > bound:
                viols.append(V("energy_error", "{} ({}, h = {}): energy error {:.3e} exceeds {:.3e}".format(name, Hm.kind, h, q4, bound), sig, **attrs))
            return viols, dict(nontrivial=True, labels=labels, counts=dict(long_run_steps=nsteps))
    except FailedToMeetTolerances:
        return [], dict(nontrivial=False, labels=labels + ["reported_failure"])
    except RuntimeError as e:
        if "step shortened" in str(e) or "expected one step" in str(e):
            return [], dict(nontrivial=False, labels=labels + ["inconclusive:step_shortened"])
        raise
    except Exception as e:
        if exc_origin(e)[0] == "harness":
            raise
        return [V("step_raised", "{} ({} mask via {}) raised {!r}".format(name, case["layout"], case["mask_via"], e), sig + exc_sig(e), **attrs)], dict(nontrivial=nontrivial, labels=labels)
    return viols, dict(nontrivial=nontrivial, labels=labels)
