"""C13 - results do not depend on call history; reset restores the initial state.

Parts
  history  a generated operation list is interpreted on a system A and on a twin B built from the same arguments:
           {integrate(), integrate(t) ahead / behind / at the current time, set dt / rtol / atol / method / tf,
            set_kick_vars, integrate with events (terminal or not), faulting integrate (one-shot exception in the
            rhs), reset()}.
           (i)   determinism: after every operation A and B agree bit for bit (t, y, event times, dt, nfev, status);
           (ii)  after reset(): t == [t0], y == [y0], no events, no dense output, nfev == 0, status "not run"; from then
                 on the twin is REPLACED by a freshly constructed system with the same settings (constructor arguments
                 plus the method / tolerances / tf / kick variables set so far; dt back at its constructor value) and
                 both must keep agreeing bit for bit;
           (iii) integrate(t_current) leaves a full snapshot unchanged;
           (v)   the caller's y0 array and constants dict compare equal to deep copies taken before construction.
  reset_fd_jacobian   (enumerated) implicit methods with the finite-difference Jacobian, float32 / float64, t0 = 0 and 0.25:
           integrate(t0 + 1), an operation that rebuilds the integrator, integrate(), reset(), integrate() - bit for bit what
           a fresh system gives (the rhs wrapper and its Jacobian machinery survive reset()).
  reset_after_blowup  (enumerated) every fixed-step explicit / splitting method x direction x dense x dt: run y' = y^2 past
           its pole (the state overflows without an exception), reset(), integrate a short span: bit for bit what a fresh
           system gives.
  split    integrate(T) against integrate(T1); ...; integrate(T) on linear problems with exact solutions:
           (iv) both within the accuracy bound and |y_split - y_whole| <= 50 max(err_whole, err_split, floor).
"""
import copy
import math

import numpy as np
from hypothesis import strategies as st

from pbt import methods as M
from pbt import problems as PR
from pbt import traj
from pbt.core import V, Part, exc_sig, exc_origin

ID = "C13"
LEVEL = "exploration"
RULE = ("history: Hypothesis-generated operation lists (4..14 operations) interpreted against a twin / a fresh model; split: "
        "Hypothesis-generated (method, linear problem, span, cut points). Distinct = SHA-1 of the case JSON. Non-trivial = a list "
        "with a reset after >= 2 other operations, or a split with >= 2 cuts / an adaptive method.")
ASSUMPTIONS = ["bit-for-bit comparison of a system with its twin presupposes that the library keeps no global mutable state between systems (that is part of what is checked)",
               "reset() is specified to return dt to its constructor value and to keep method, tolerances, tf and kick variables"]

METHOD_POOL = ["RK4Solver", "RK45CKSolver", "DOPRI45", "HeunEulerSolver", "EulerSolver", "RK8713MSolver", "ABAs5o6HSolver", "SymplecticEulerSolver", "ImplicitMidpoint", "LobattoIIIC4",
               "Rich2:RK4Solver"]


class Fault(Exception):
    pass


@st.composite
def _history(draw):
    prob = draw(PR.prog_params(shapes=[[2], [2], [4]]))
    for k in ("P", "Q"):
        prob[k] = [[x / 2.0 for x in row] for row in prob[k]]
    t0 = draw(st.sampled_from([0.0, 1.0, -2.0]))
    L = draw(st.sampled_from([1.0, 0.5]))
    direction = draw(st.sampled_from([1.0, 1.0, -1.0]))
    n = draw(st.integers(4, 14))
    ops = []
    for _ in range(n):
        kind = draw(st.sampled_from(["integrate", "integrate", "integrate_to", "integrate_to", "set_dt", "set_rtol", "set_atol", "set_method", "set_tf",
                                     "set_kick", "integrate_events", "integrate_fault", "reset", "reset", "noop", "set_t0"]))
        if kind == "set_t0":
            # system.t0 = <new start time> ("changes the initial time for the integration"): in force from the next reset() on
            ops.append([kind, draw(st.sampled_from([-0.5, 0.25, -1.0]))])
        elif kind == "integrate_to":
            ops.append([kind, draw(st.sampled_from([0.25, 0.5, 0.75, 1.0, 1.25, -0.25, 0.1]))])
        elif kind == "set_dt":
            ops.append([kind, draw(st.sampled_from([0.05, 0.1, 0.2, 0.025]))])
        elif kind in ("set_rtol", "set_atol"):
            ops.append([kind, draw(st.sampled_from([1e-4, 1e-6, 1e-8]))])
        elif kind == "set_method":
            ops.append([kind, draw(st.sampled_from(METHOD_POOL))])
        elif kind == "set_tf":
            ops.append([kind, draw(st.sampled_from([1.0, 1.5, 0.6, -1.0]))])      # (-1.0: the span mirrored about t0 - the other direction)
        elif kind == "set_kick":
            ops.append([kind, draw(st.sampled_from(["default", "first_half"]))])
        elif kind == "integrate_events":
            ops.append([kind, draw(st.sampled_from([0.35, 0.6, 0.85])), draw(st.booleans())])
        elif kind == "integrate_fault":
            ops.append([kind, draw(st.integers(2, 30))])
        else:
            ops.append([kind])
    if draw(st.integers(0, 5)) == 0:
        # a kick mask set while one splitting method is selected, then another splitting method (or the same again)
        a_, b_ = draw(st.sampled_from(["ABAs5o6HSolver", "SymplecticEulerSolver", "BABs9o7HSolver"])), draw(st.sampled_from(["BABs9o7HSolver", "ABAs5o6HSolver", "SymplecticEulerSolver"]))
        ops = [["set_method", a_], ["set_kick", draw(st.sampled_from(["first_half", "default"]))], ["set_method", b_]] + ops
    if draw(st.integers(0, 5)) == 0:
        # a run one way (with lookups in its dense output, see snapshot()), reset(), then a run the other way
        ops = [["integrate"], ["reset"], ["set_tf", -1.0], ["integrate"]] + ops
    return dict(part="history", prob=prob, y0=draw(PR.state(prob["shape"])), t0=t0, tf=t0 + direction * L, dt=draw(st.sampled_from([0.1, 0.05, 0.25])),
                rtol=1e-6, atol=1e-6, dense=draw(st.booleans()), method=draw(st.sampled_from(METHOD_POOL)), constants=draw(st.sampled_from([{}, {"k": 1.5}])), ops=ops)


@st.composite
def _split(draw):
    method = draw(traj.method_name(weights=[4, 4, 2, 2, 1, 1]))
    fam = M.family(M.get(method))
    slow = fam in ("implicit_fixed", "implicit_embedded", "richardson")
    t0, tf = draw(traj.span(max_len=3.0))
    L = abs(tf - t0)
    prob = draw(PR.lin_params(dims=(2,), horizon=L))
    cuts = sorted(set(draw(st.lists(st.sampled_from([0.2, 0.35, 0.5, 0.65, 0.8]), min_size=1, max_size=3))))
    return dict(part="split", method=method, dtype="float64", prob=prob, y0=[1.0, -0.5], t0=t0, tf=tf, dt=L * draw(st.sampled_from([0.1, 0.05, 0.25] if slow else [0.1, 0.05, 0.02, 0.25])),
                rtol=draw(st.sampled_from([1e-5, 1e-7])), atol=1e-7, dense=draw(st.booleans()), cuts=cuts)


def _blowup_cases():
    """reset() after a numerically blown-up run: fixed-step explicit and splitting methods step over the pole of
    y' = y^2 without noticing and leave inf / nan behind ("whatever happened before" includes that)"""
    for method in [n for n in M.names("all") if M.family(n) in ("explicit_fixed", "splitting")]:
        for direction in (1.0, -1.0):
            for dense in (False, True):
                for dt in (0.25, 0.1):
                    yield dict(part="reset_after_blowup", method=method, direction=direction, dense=dense, dt=dt, t0=0.0 if direction > 0 else 1.0)


def _fd_cases():
    """reset() versus a fresh system when the finite-difference Jacobian machinery (which lives in the rhs wrapper and
    survives reset()) has been asked at times other than t0 before: implicit methods x {float32, float64} x t0 in {0, 0.25}
    x stiffness x state x the operation that rebuilds the integrator between the two calls"""
    for method in ["LobattoIIIC4", "RadauIIA5", "ImplicitMidpoint", "BackwardEuler", "GaussLegendre4", "CrankNicolson"]:
        for dtype in ("float32", "float64"):
            for t0 in (0.0, 0.25):
                for mu in (2.0, 5.0):
                    for y0 in ([2.0, 0.0], [0.5, -1.0], [-1.5, 0.75]):
                        for mid in ("set_rtol", "set_atol", "set_method", "set_dt"):
                            yield dict(part="reset_fd_jacobian", method=method, dtype=dtype, t0=t0, mu=mu, y0=y0, mid=mid)


def parts(tier):
    q = tier == "quick"
    return [Part("reset_after_blowup", enumerate=_blowup_cases, timeout=120, exhaustive=True),
            Part("reset_fd_jacobian", enumerate=_fd_cases, timeout=300, exhaustive=True),
            Part("history", strategy=_history(), examples=300 if q else 6000, timeout=600),
            Part("split", strategy=_split(), examples=300 if q else 6000, timeout=300),
            Part("neighbours", enumerate=_neighbour_cases, timeout=120, exhaustive=True),
            Part("reset_after_unrecorded_work", enumerate=_unrecorded_cases, timeout=300, exhaustive=True)]


def _unrecorded_cases():
    """a first call that makes the integrator work but records no step (the right-hand side raises late in the first step, an
    event function raises while the first step is examined, a terminal event sits on the starting point), then reset() and a
    plain run - against a freshly built system"""
    for method in ("RadauIIA5", "LobattoIIIC4", "GaussLegendre4", "ImplicitMidpoint", "BackwardEuler", "CrankNicolson", "Rich2:RK4Solver", "Rich2:ImplicitMidpoint", "RK45CKSolver", "ABAs5o6HSolver"):
        for trigger, ks in (("rhs_fault", (3, 8, 15, 30, 60, 120)), ("event_fault", (0,)), ("terminal_at_start", (0,))):
            for k in ks:
                for direction in (1.0, -1.0):
                    yield dict(part="reset_after_unrecorded_work", method=method, trigger=trigger, k=k, direction=direction)


def _check_unrecorded(case):
    import desolver as de
    method = case["method"]
    attrs = dict(method=method, trigger=case["trigger"])
    labels = ["unrecorded:" + case["trigger"], "method0:" + method]

    class Fault(Exception):
        pass
    y0 = np.array([1.0, -0.5])
    tf = case["direction"] * 1.0

    def build(counter=None):
        def rhs(t, y, **kw):
            if counter is not None:
                counter[0] += 1
                if counter[1] is not None and counter[0] == counter[1]:
                    counter[1] = None
                    raise Fault("injected")
            return np.array([-2.0 * y[0] + 0.1 * y[1] ** 2, -0.5 * y[1] + np.sin(3.0 * t)])
        s_ = de.OdeSystem(rhs, y0=y0.copy(), t=(0.0, tf), dt=0.25, rtol=1e-6, atol=1e-6, dense_output=True)
        s_.method = M.get(method)
        return s_
    cnt = [0, None]
    a = build(cnt)
    evs = None
    if case["trigger"] == "rhs_fault":
        cnt[1] = cnt[0] + case["k"]
    elif case["trigger"] == "event_fault":
        def boom(t, y, **kw):
            raise Fault("injected in an event function")
        evs = [boom]
    else:
        def at_start(t, y, **kw):
            return y[0] - 1.0
        at_start.is_terminal = True
        evs = [at_start]
    try:
        a.integrate(events=evs)
        outcome = "returned"
    except de.exception_types.FailedIntegration:
        outcome = "failed"
    cnt[1] = None
    if len(a) != 1:
        return [], dict(nontrivial=False, labels=labels + ["a_step_was_recorded:not_this_part"])
    labels.append("first_call:" + outcome)
    try:
        a.reset()
        a.integrate()
        f = build()
        f.integrate()
    except Exception as e:
        if exc_origin(e)[0] == "harness":
            raise
        return [V("operation_raised", "{}: reset() / integrate() after a first call that recorded nothing raised {!r}".format(method, e), "unrecorded" + exc_sig(e), **attrs)], dict(nontrivial=False, labels=labels)
    ta, ya, tb, yb = np.asarray(a.t), np.asarray(a.y), np.asarray(f.t), np.asarray(f.y)
    viols = []
    if len(ta) != len(tb) or not np.array_equal(ta, tb) or not np.array_equal(ya, yb):
        k_ = next((i for i in range(min(len(ta), len(tb))) if ta[i] != tb[i] or not np.array_equal(ya[i], yb[i])), min(len(ta), len(tb)))
        viols.append(V("reset_vs_fresh", "{}: after a first call that {} without recording a step ({}{}), reset() and integrate() give {} samples, a fresh system {}; first difference at sample {} (t {!r} vs {!r})".format(
            method, outcome, case["trigger"], " at evaluation {}".format(case["k"]) if case["trigger"] == "rhs_fault" else "", len(ta), len(tb), k_,
            float(ta[k_]) if k_ < len(ta) else None, float(tb[k_]) if k_ < len(tb) else None), "unrecorded:" + case["trigger"], **attrs))
    return viols, dict(nontrivial=True, labels=labels)


def _neighbour_cases():
    """two systems built side by side WITHOUT a constants argument; a constant is added to one of them in place
    (system.constants['k'] = ...): the other one, and any system built afterwards, must not see it"""
    for method in ("RK4Solver", "RK45CKSolver", "ImplicitMidpoint", "SymplecticEulerSolver"):
        for how in ("default", "empty_dict_each", "shared_dict_object"):
            for k in (5.0, -2.0):
                yield dict(part="neighbours", method=method, how=how, k=k)


def _check_neighbours(case):
    import desolver as de
    method = case["method"]
    attrs = dict(method=method, how=case["how"])

    def rhs(t, y, k=1.0, **kw):
        return np.array([y[1], -k * y[0]])
    shared = {}

    def build():
        kw = {}
        if case["how"] == "empty_dict_each":
            kw["constants"] = {}
        elif case["how"] == "shared_dict_object":
            kw["constants"] = shared          # (the caller's own choice: then the systems do share it - no verdict, a control)
        s_ = de.OdeSystem(rhs, y0=np.array([1.0, 0.0]), t=(0.0, 1.0), dt=0.125, rtol=1e-8, atol=1e-8, **kw)
        s_.method = M.get(method)
        return s_
    a, b = build(), build()
    ref = build()
    ref.integrate()
    want = np.asarray(ref.y[-1]).copy()
    a.constants["k"] = case["k"]
    c = build()                                # built AFTER the constant was added to `a`
    viols = []
    labels = ["neighbours:" + case["how"], "method0:" + method]
    if case["how"] != "shared_dict_object":
        for name, s_ in (("a system built before", b), ("a system built afterwards", c)):
            if "k" in s_.constants:
                viols.append(V("constants_shared", "{}: system.constants['k'] = {} on one system shows up in {} ({} constants: {})".format(method, case["k"], name, case["how"], dict(s_.constants)), "shared:" + case["how"], **attrs))
                break
            s_.integrate()
            if not np.array_equal(np.asarray(s_.y[-1]), want):
                viols.append(V("constants_shared", "{}: {} integrates to {} instead of {} after a constant was added to ANOTHER system".format(method, name, np.asarray(s_.y[-1]).tolist(), want.tolist()), "shared:" + case["how"], **attrs))
                break
    return viols, dict(nontrivial=case["how"] == "default", labels=labels)


# --------------------------------------------------------------------------------------------------
class Sys(object):
    """a system plus its own instrumented rhs (so that twins see identical call sequences)"""

    def __init__(self, case, settings=None):
        import desolver as de
        f = PR.Prog(case["prob"])
        self.f = f
        self.fault_in = None
        outer = self

        def rhs(t, y, **kw):
            if outer.fault_in is not None:
                outer.fault_in -= 1
                if outer.fault_in == 0:
                    outer.fault_in = None
                    raise Fault("injected")
            k = kw.get("k", 1.0)
            return f(t, y) * k
        self.y0_arg = np.asarray(case["y0"], dtype=np.float64).reshape(f.shape)
        self.y0_copy = self.y0_arg.copy()
        self.constants_arg = dict(case["constants"])
        self.constants_copy = copy.deepcopy(self.constants_arg)
        s = settings or {}
        self.a = de.OdeSystem(rhs, y0=self.y0_arg, t=(s.get("t0", case["t0"]), s.get("tf", case["tf"])), dense_output=case["dense"], dt=case["dt"],
                              rtol=s.get("rtol", case["rtol"]), atol=s.get("atol", case["atol"]), constants=self.constants_arg)
        self.a.method = M.get(s.get("method", case["method"]))
        if "kick" in s:
            self.a.set_kick_vars(_mask(s["kick"], f.shape))

    def snapshot(self):
        a = self.a
        tt = np.asarray(a.t, dtype=np.float64)
        q = None
        if a.sol is not None and len(tt) >= 2 and len(a.sol.t_eval or []) >= 1 and np.all(np.isfinite(tt)):
            # a few lookups strictly inside recorded steps (first, middle, last): part of what "the same answer" means with dense output
            ks = sorted(set([0, (len(tt) - 1) // 2, len(tt) - 2]))
            try:
                q = [np.asarray(a.sol(np.float64(tt[k] + 0.5 * (tt[k + 1] - tt[k]))), dtype=np.float64).copy() for k in ks]
            except Exception as e:
                q = [repr(e)]
        if a.sol is None and len(tt) >= 2 and np.all(np.isfinite(tt)):
            # without dense output: nearest-sample lookups by time and the slice over the whole record
            try:
                q = [np.asarray([float(a[np.float64(tt[0] + fr * (tt[-1] - tt[0]))].t)]) for fr in (0.3, 0.71)] + [np.asarray([float(len(a[float(tt[0]):float(tt[-1])].t))])]
            except Exception as e:
                q = [repr(e)]
        return dict(t=np.asarray(a.t).copy(), y=np.asarray(a.y).copy(), ev=[(float(e.t), np.asarray(e.y).copy()) for e in a.events], dt=float(a.dt), nfev=a.nfev,
                    status=a.integration_status, npieces=(len(a.sol.t_eval or []) if a.sol is not None else None), q=q)


def _mask(kind, shape):
    n = shape[0]
    m = np.zeros(shape, dtype=bool)
    if kind == "default":
        m[n // 2:] = True
    else:
        m[:n // 2] = True
    return m


def _same(s1, s2):
    if len(s1["t"]) != len(s2["t"]) or not np.array_equal(s1["t"], s2["t"]) or not np.array_equal(s1["y"], s2["y"], equal_nan=True):
        return "trajectories differ ({} vs {} samples{})".format(len(s1["t"]), len(s2["t"]), "" if len(s1["t"]) != len(s2["t"]) else ", max state difference {:.3e}".format(float(np.max(np.abs(s1["y"] - s2["y"])))))
    if len(s1["ev"]) != len(s2["ev"]) or any(a[0] != b[0] or not np.array_equal(a[1], b[1]) for a, b in zip(s1["ev"], s2["ev"])):
        return "events differ ({} vs {})".format([e[0] for e in s1["ev"]], [e[0] for e in s2["ev"]])
    if s1["dt"] != s2["dt"]:
        return "dt differs ({!r} vs {!r})".format(s1["dt"], s2["dt"])
    if s1["nfev"] != s2["nfev"]:
        return "nfev differs ({} vs {})".format(s1["nfev"], s2["nfev"])
    if s1["status"] != s2["status"]:
        return "status differs ({!r} vs {!r})".format(s1["status"], s2["status"])
    if s1["npieces"] != s2["npieces"]:
        return "dense output differs ({} vs {} pieces)".format(s1["npieces"], s2["npieces"])
    q1, q2 = s1.get("q"), s2.get("q")
    if (q1 is None) != (q2 is None) or (q1 is not None and (len(q1) != len(q2) or any(isinstance(u, str) or isinstance(v, str) or not np.array_equal(u, v, equal_nan=True) for u, v in zip(q1, q2)))):
        return "lookups by time (dense-output values inside recorded steps / nearest samples and the whole-record slice) differ ({} vs {})".format([u if isinstance(u, str) else np.asarray(u).tolist() for u in (q1 or [])][:2], [v if isinstance(v, str) else np.asarray(v).tolist() for v in (q2 or [])][:2])
    return None


def _apply(S, op, case, settings):
    """applies one operation; returns a short outcome tag (so that twins can also be compared on what happened)"""
    import desolver as de
    a = S.a
    kind = op[0]
    t0, tf0 = case["t0"], case["tf"]
    try:
        if kind == "integrate":
            a.integrate()
        elif kind == "integrate_to":
            a.integrate(np.float64(t0 + op[1] * (tf0 - t0)))
        elif kind == "noop":
            a.integrate(a.t[-1])
        elif kind == "set_dt":
            a.dt = op[1]
        elif kind == "set_rtol":
            a.rtol = op[1]
        elif kind == "set_atol":
            a.atol = op[1]
        elif kind == "set_method":
            a.method = M.get(op[1])
        elif kind == "set_tf":
            a.tf = t0 + op[1] * (tf0 - t0)
        elif kind == "set_t0":
            a.t0 = t0 + op[1] * (tf0 - t0)
        elif kind == "set_kick":
            a.set_kick_vars(_mask(op[1], S.f.shape))
        elif kind == "integrate_events":
            tc = float(a.t[-1]) + op[1] * (float(a.tf) - float(a.t[-1]))

            def g(t, y, _tc=tc, **kw):
                return t - _tc
            g.is_terminal = bool(op[2])
            a.integrate(events=[g])
        elif kind == "integrate_fault":
            S.fault_in = op[1]
            try:
                a.integrate()
            finally:
                S.fault_in = None
        elif kind == "reset":
            a.reset()
        return "ok"
    except de.exception_types.FailedIntegration as e:
        c = e.__cause__
        depth = 0
        while isinstance(c, de.exception_types.FailedIntegration) and c.__cause__ is not None and depth < 4:
            c = c.__cause__
            depth += 1
        from pbt.core import CaseTimeout
        if isinstance(c, CaseTimeout):
            raise c
        return "failed:" + type(c).__name__
    except ValueError as e:
        if kind in ("set_tf", "set_t0"):
            return "rejected"
        raise


def _check_history(case):
    labels = ["method0:" + case["method"], "dense:on" if case["dense"] else "dense:off", "backward" if case["tf"] < case["t0"] else "forward"]
    viols = []
    A, B = Sys(case), Sys(case)
    settings = {}
    compare_with = "its twin"
    n_before_reset = 0
    resets_deep = 0
    attrs = dict(method0=case["method"])
    for i, op in enumerate(case["ops"]):
        kind = op[0]
        hist = [o[0] if len(o) == 1 else "{}({})".format(o[0], o[1]) for o in case["ops"][:i + 1]]
        pre = A.snapshot() if kind == "noop" else None
        try:
            ra = _apply(A, op, case, settings)
            rb = _apply(B, op, case, settings)
        except Exception as e:
            if exc_origin(e)[0] == "harness":
                raise
            viols.append(V("operation_raised", "{} raised {!r} after {}".format(kind, e, hist), kind + exc_sig(e), **attrs))
            break
        labels.append("op:" + kind)
        if ra.startswith("failed:FailedToMeetTolerances") or rb.startswith("failed:FailedToMeetTolerances"):
            labels.append("reported_failure")
        if ra != rb:
            viols.append(V("determinism", "operation {} ended {!r} on the system and {!r} on {} after {}".format(kind, ra, rb, compare_with, hist), "outcome:" + compare_with, **attrs))
            break
        # settings that survive a reset
        if ra == "ok":
            if kind == "set_rtol":
                settings["rtol"] = op[1]
            elif kind == "set_atol":
                settings["atol"] = op[1]
            elif kind == "set_method":
                settings["method"] = op[1]
            elif kind == "set_tf":
                settings["tf"] = case["t0"] + op[1] * (case["tf"] - case["t0"])
            elif kind == "set_t0":
                settings["t0"] = case["t0"] + op[1] * (case["tf"] - case["t0"])
            elif kind == "set_kick":
                settings["kick"] = op[1]
        sa = A.snapshot()
        if kind == "set_t0" and ra == "ok" and len(sa["t"]) == 1 and sa["t"][0] != settings["t0"]:
            # nothing has been recorded (fresh, after reset(), or after calls that failed / stopped inside their first step):
            # the system sits at its start time, and that is what was just assigned
            viols.append(V("t0_assignment", "system.t0 = {!r} on a system with no recorded step left it at t = {!r} after {}".format(settings["t0"], float(sa["t"][0]), hist), "t0", **attrs))
            break
        if kind == "reset":
            resets_deep += 1 if n_before_reset >= 2 else 0
            f = A.f
            y0 = np.asarray(case["y0"], dtype=np.float64).reshape(f.shape)
            bad = []
            if len(sa["t"]) != 1 or sa["t"][0] != settings.get("t0", case["t0"]) or not np.array_equal(sa["y"][0], y0):
                bad.append("trajectory is not [(t0, y0)]: {} samples, t[0]={!r}, t0 = {!r}".format(len(sa["t"]), float(sa["t"][0]), settings.get("t0", case["t0"])))
            if sa["ev"]:
                bad.append("{} events kept".format(len(sa["ev"])))
            if sa["npieces"] not in (None, 0):
                bad.append("{} dense-output pieces kept".format(sa["npieces"]))
            if sa["nfev"] != 0:
                bad.append("nfev = {}".format(sa["nfev"]))
            if "has not been run" not in sa["status"]:
                bad.append("status {!r}".format(sa["status"]))
            if abs(sa["dt"]) != abs(case["dt"]):
                bad.append("dt = {!r}, constructor value {!r}".format(sa["dt"], case["dt"]))
            if bad:
                viols.append(V("reset_state", "after reset() following {}: {}".format(hist[:-1], "; ".join(bad)), "reset", **attrs))
                break
            # from now on the reference is a freshly constructed system with the same settings
            try:
                B = Sys(case, settings)
            except Exception as e:
                if exc_origin(e)[0] == "harness":
                    raise
                viols.append(V("fresh_construction_raised", "constructing a fresh system with settings {} raised {!r}".format(settings, e), "fresh" + exc_sig(e), **attrs))
                break
            compare_with = "a freshly constructed system with the same settings"
            n_before_reset = 0
            sb = B.snapshot()
            sa_cmp, sb_cmp = dict(sa, nfev=0, status=""), dict(sb, nfev=0, status="")   # the fresh constructor has made its probe call
            diff = _same(sa_cmp, sb_cmp)
        else:
            n_before_reset += 1
            sb = B.snapshot()
            if compare_with != "its twin":
                # nfev of the fresh system includes the constructor's probe call; reset() zeroes the counter
                sb = dict(sb, nfev=sb["nfev"] - 1)
                if "completed" in sa["status"] or "completed" in sb["status"] or True:
                    pass
            diff = _same(sa, sb)
        if diff:
            viols.append(V("determinism" if compare_with == "its twin" else "reset_vs_fresh", "after {}: the system and {} disagree: {}".format(hist, compare_with, diff),
                           ("twin" if compare_with == "its twin" else "fresh") + ":" + diff.split(" ")[0], **attrs))
            break
        if kind == "noop" and ra == "ok":
            d = _same(pre, sa)
            if d:
                viols.append(V("noop_changed_state", "integrate(t_current) after {} changed the system: {}".format(hist[:-1], d), "noop", **attrs))
                break
        for S, who in ((A, "system"), (B, "reference")):
            if not np.array_equal(S.y0_arg, S.y0_copy):
                viols.append(V("caller_y0_modified", "the caller's y0 array was modified by {} ({})".format(kind, who), "y0", **attrs))
            if S.constants_arg != S.constants_copy:
                viols.append(V("caller_constants_modified", "the caller's constants dict was modified by {} ({})".format(kind, who), "constants", **attrs))
        if viols:
            break
    return viols, dict(nontrivial=resets_deep > 0, labels=sorted(set(labels)))


def _check_split(case):
    import desolver as de
    method = case["method"]
    fam = M.family(M.get(method))
    attrs = dict(method=method, family=fam)
    labels = ["family:" + fam, "cuts:{}".format(len(case["cuts"]))]

    def run(cuts):
        a, f, y0 = traj.make_system(case)
        for c in cuts:
            err = traj.run_integrate(a, np.float64(case["t0"] + c * (case["tf"] - case["t0"])), step_limit=len(a) + 1500)
            if err is not None:
                return a, f, y0, err
        err = traj.run_integrate(a, None, step_limit=len(a) + 1500)
        return a, f, y0, err
    aw, f, y0, e1 = run([])
    as_, _, _, e2 = run(case["cuts"])
    for e in (e1, e2):
        if e is not None:
            if isinstance(e, traj.StepCap):
                return [], dict(nontrivial=False, labels=labels + ["capped"])
            if isinstance(e.__cause__, de.exception_types.FailedToMeetTolerances) and fam in ("implicit_fixed", "implicit_embedded", "richardson"):
                return [], dict(nontrivial=False, labels=labels + ["reported_failure"])
            return [V("integrate_raised", "{!r} caused by {!r}".format(e, e.__cause__), fam + exc_sig(e), **attrs)], dict(nontrivial=False, labels=labels)
    viols = []
    ex = f.exact(case["tf"], case["t0"], y0)
    yw, ys = np.asarray(aw.y)[-1], np.asarray(as_.y)[-1]
    ew, es = float(np.max(np.abs(yw - ex))), float(np.max(np.abs(ys - ex)))
    ymax = float(np.max(np.abs(np.asarray(aw.y))))
    floor = 50 * (case["atol"] + case["rtol"] * ymax)
    eps = float(np.finfo(np.float64).eps)
    for a, name in ((aw, "whole"), (as_, "split")):
        if abs(float(a.t[-1]) - case["tf"]) > 64 * eps * max(1.0, abs(case["tf"])):
            viols.append(V("split_end_time", "{} run ended at {!r} instead of {!r}".format(name, float(a.t[-1]), case["tf"]), fam, **attrs))
    d = float(np.max(np.abs(yw - ys)))
    allowed = 50 * max(ew, es, 1e-13 * (1 + ymax)) if fam in ("explicit_fixed", "splitting", "implicit_fixed") else 50 * max(ew, floor / 50)
    if fam not in ("explicit_fixed", "splitting", "implicit_fixed"):
        for e_, name in ((ew, "whole"), (es, "split")):
            amp = f.amplification(case["tf"] - case["t0"])
            bound = 60 * (case["atol"] + case["rtol"] * ymax) * amp * math.sqrt(max(len(as_), 1))
            if not e_ <= bound and method not in ("RK1412Solver", "RK108Solver"):
                viols.append(V("split_accuracy", "{}: the {} run (cuts {}) is off by {:.3e} from the exact solution (allowed {:.3e})".format(method, name, case["cuts"], e_, bound), fam, **attrs))
    if not d <= allowed and not viols:
        viols.append(V("split_dependence", "{}: integrating to T in {} calls differs from one call by {:.3e} (errors against the exact solution: whole {:.3e}, split {:.3e}; allowed {:.3e})".format(
            method, len(case["cuts"]) + 1, d, ew, es, allowed), fam, **attrs))
    return viols, dict(nontrivial=bool(len(case["cuts"]) >= 2 or fam in ("embedded", "implicit_embedded", "richardson")), labels=labels)


def _check_blowup(case):
    import desolver as de
    method = case["method"]
    attrs = dict(method=method, family=M.family(M.get(method)))
    sgn = case["direction"]

    def build():
        a = de.OdeSystem(lambda t, y, **kw: sgn * y * y, y0=np.array([2.0, 1.0]), t=(case["t0"], case["t0"] + sgn * 2.0), dense_output=case["dense"], dt=case["dt"], rtol=1e-6, atol=1e-6)
        a.method = M.get(method)
        return a
    viols = []
    with np.errstate(all="ignore"):
        a = build()
        try:
            a.integrate()
        except de.exception_types.FailedIntegration:
            pass
        blown = not np.all(np.isfinite(np.asarray(a.y)))
        a.reset()
        fresh = build()
        target = np.float64(case["t0"] + sgn * 0.25)
        ra = rb = "ok"
        try:
            a.integrate(target)
        except de.exception_types.FailedIntegration as e:
            ra = "failed:" + type(e.__cause__).__name__
        try:
            fresh.integrate(target)
        except de.exception_types.FailedIntegration as e:
            rb = "failed:" + type(e.__cause__).__name__
    ta, ya, tb, yb = np.asarray(a.t), np.asarray(a.y), np.asarray(fresh.t), np.asarray(fresh.y)
    if ra != rb or len(ta) != len(tb) or not np.array_equal(ta, tb) or not np.array_equal(ya, yb, equal_nan=True):
        viols.append(V("reset_after_blowup", "{}: after a run that overflowed (y' = y^2 past its pole), reset() and integrate({!r}) give {} / final state {} while a fresh system gives {} / {}".format(
            method, float(target), ra, ya[-1].tolist(), rb, yb[-1].tolist()), "blowup", **attrs))
    return viols, dict(nontrivial=bool(blown), labels=["blowup:" + method, "blown" if blown else "not_blown"])


def _check_fd(case):
    import desolver as de
    method = case["method"]
    dt = np.float32 if case["dtype"] == "float32" else np.float64
    tol = 1e-3 if case["dtype"] == "float32" else 1e-6
    attrs = dict(method=method, family=M.family(M.get(method)), dtype=case["dtype"])
    mu = case["mu"]

    def rhs(t, y, **kw):       # forced van der Pol; no user Jacobian: the wrapper differentiates numerically
        return np.array([y[1], mu * (1 - y[0] ** 2) * y[1] - y[0] + 0.5 * np.cos(t)], dtype=y.dtype)

    def build():
        a = de.OdeSystem(rhs, y0=np.array(case["y0"], dtype=dt), t=(case["t0"], case["t0"] + 2.0), dt=0.1, rtol=tol, atol=tol)
        a.method = M.get(method)
        return a

    def run(a, target=None):
        try:
            a.integrate(target) if target is not None else a.integrate()
            return "ok"
        except de.exception_types.FailedIntegration as e:
            return "failed:" + type(e.__cause__).__name__
    a = build()
    r1 = run(a, dt(case["t0"] + 1.0))
    if case["mid"] == "set_rtol":
        a.rtol = a.rtol
    elif case["mid"] == "set_atol":
        a.atol = a.atol
    elif case["mid"] == "set_method":
        a.method = M.get(method)
    else:
        a.dt = float(a.dt)
    r2 = run(a)
    a.reset()
    ra = run(a)
    fresh = build()
    rb = run(fresh)
    viols = []
    ta, ya, tb, yb = np.asarray(a.t), np.asarray(a.y), np.asarray(fresh.t), np.asarray(fresh.y)
    if ra != rb or len(ta) != len(tb) or not np.array_equal(ta, tb) or not np.array_equal(ya, yb, equal_nan=True):
        k = int(np.argmax(np.any(ya[:min(len(ya), len(yb))] != yb[:min(len(ya), len(yb))], axis=1))) if len(ya) and len(yb) else 0
        viols.append(V("reset_vs_fresh", "{} ({}, t0 = {}): integrate(t0 + 1), {}, integrate(), reset(), integrate() gives {} / {} samples; a fresh system gives {} / {} samples; first differing sample {} ({} vs {})".format(
            method, case["dtype"], case["t0"], case["mid"], ra, len(ta), rb, len(tb), k, ya[k].tolist() if k < len(ya) else None, yb[k].tolist() if k < len(yb) else None), "fd_jacobian", **attrs))
    return viols, dict(nontrivial=bool(r1 == "ok" and r2 == "ok" and ra == "ok"), labels=["reset_fd:" + method, "reset_fd:" + case["dtype"], "first_run:" + r1.split(":")[0]])


def check(case):
    if case["part"] == "reset_fd_jacobian":
        return _check_fd(case)
    if case["part"] == "neighbours":
        return _check_neighbours(case)
    if case["part"] == "reset_after_unrecorded_work":
        return _check_unrecorded(case)
    if case["part"] == "reset_after_blowup":
        return _check_blowup(case)
    return _check_history(case) if case["part"] == "history" else _check_split(case)
