"""C02 - one step equals the Runge-Kutta update defined by the method's coefficients.

After integrator(rhs, t, y, {}, h) returns (next_dt, (dT, dY)) the harness reads the stage slopes K the integrator
kept and re-evaluates the defining equations itself, in the next wider precision, from the *class* tableau:
    K_i == f(t + c_i dT, y + dT sum_j a_ij K_j)          dY == dT sum_i b_i K_i
Explicit methods: to a rounding model.  Implicit methods: residual norm <= 4 x the solver's own target
(0.5 max|atol + max|rtol y||) - this is also the oracle for "an unconverged implicit step is never handed back".
Splitting methods: the harness composes drift / kick sub-steps from the table and the default kick mask.
Up to three consecutive steps are taken on the same integrator object (cached end slopes, rejected attempts).
"""
import math

import numpy as np
from hypothesis import strategies as st

from pbt import methods as M
from pbt import problems as PR
from pbt.core import V, Part, exc_sig, exc_origin

ID = "C02"
LEVEL = "exploration"
RULE = ("Hypothesis draws (method, dtype, rhs program of random shape, t, y, h of either sign, tolerances, 1..3 consecutive "
        "steps, user/finite-difference Jacobian). Distinct = SHA-1 of the case JSON. Non-trivial = state dimension >= 2, "
        "nonlinear and time-dependent rhs, and for implicit methods a step that was actually returned (not a reported failure).")
ASSUMPTIONS = ["stage slopes are read from integrator.stage_values (the only place they are observable)",
               "rounding model: 2 (n + s + 4) eps x (Lipschitz x argument magnitude + term magnitude + |t| x time derivative)",
               "implicit residual bound is the solver's own target times 4, plus the rounding floor"]


@st.composite
def _case(draw, kind):
    if kind == "explicit":
        method = draw(st.sampled_from(M.names("explicit_rk")))
        if draw(st.integers(0, 7)) == 0:
            method = "Derived:" + method      # a user's subclass of the shipped class, with a tableau of its own
        dtype = draw(st.sampled_from(["float64", "float64", "float32", "longdouble"]))
    elif kind == "implicit":
        method = draw(st.sampled_from(M.names("implicit")))
        dtype = draw(st.sampled_from(["float64"] * 6 + ["float32"] * 2 + ["longdouble"] * 3))
    else:
        method = draw(st.sampled_from([n for n in M.names("explicit") if M.family(n) == "splitting"]))
        dtype = draw(st.sampled_from(["float64", "float64", "float32", "longdouble"]))
    if kind == "split":
        shapes = [[2], [4], [2, 2], [6], [4, 1]]
    elif kind == "implicit":
        shapes = [[1], [2], [3], [2, 2]] if dtype != "longdouble" else [[1], [2]]
        if method == "RadauIIA19":
            shapes = [[1], [2]]
    else:
        shapes = None
        if draw(st.integers(0, 5)) == 0:
            # a state whose last axis happens to be as long as the method has stages: (stages,) and (k, stages) arrays are
            # conformable with the stage buffer and the weight vectors in more ways than the intended one
            ns = int(M.tableau(method)[1].shape[0])
            if ns >= 2:
                shapes = [[ns], [2, ns], [ns, 2]]
    if shapes is not None and kind == "explicit" and max(int(np.prod(s_)) for s_ in shapes) > 6:
        # (many components: banded coefficient matrices built from a few drawn numbers)
        shape_ = draw(st.sampled_from(shapes))
        n_ = int(np.prod(shape_))
        v_ = draw(st.lists(st.integers(-8, 8).map(lambda k: k / 8.0), min_size=9, max_size=9))

        def banded(off):
            return [[(v_[(3 * i + j + off) % 9] if abs(i - j) <= 1 else 0.0) for j in range(n_)] for i in range(n_)]
        rhs = dict(kind="prog", shape=shape_, P=banded(0), Q=banded(2), R=banded(5), u=[v_[(i + 4) % 9] for i in range(n_)],
                   a=draw(st.sampled_from([0.0, 0.5, -0.25])), w=draw(st.sampled_from([0.0, 1.0, 2.5])), c=draw(st.sampled_from([0.0, 1.0])), w2=draw(st.sampled_from([0.0, 1.7])))
    else:
        rhs = draw(PR.prog_params(shapes=shapes))
    linear = kind == "implicit" and draw(st.sampled_from([False, False, True]))
    if linear:
        # f = P y + c cos(w2 t) u: the stage equations are one linear system, which a Newton-type solver with the true
        # Jacobian solves whatever the stiffness
        n_ = int(np.prod(rhs["shape"]))
        rhs = dict(rhs, Q=[[0.0] * n_ for _ in range(n_)], a=0.0)
    t = draw(st.sampled_from([0.0, 1.0, -3.0, 10.0, -100.0, 1000.0]))
    hmag = draw(st.sampled_from([1e-4, 1e-3, 0.01, 0.05, 0.125, 0.25, 0.5, 1.0, 2.0]))
    if kind == "implicit":
        hmag = min(hmag, 0.5)
    h = hmag * draw(st.sampled_from([1.0, -1.0]))
    y = draw(PR.state(rhs["shape"]))
    if kind == "implicit":
        tol = draw(st.sampled_from({"float32": [1e-3, 1e-4], "float64": [1e-4, 1e-7, 1e-10], "longdouble": [1e-6, 1e-10]}[dtype]))
    else:
        tol = draw(st.sampled_from([1e6, 1e-3, 1e-8] if dtype != "float32" else [1e6, 1e-3]))
    return dict(part=kind, method=method, dtype=dtype, rhs=rhs, t=t, h=h, y=y, tol=tol,
                nsteps=draw(st.integers(1, 3)) if kind != "implicit" else draw(st.integers(1, 2)),
                user_jac=draw(st.booleans()) if kind == "implicit" else False,
                # before a later step the same integrator object may be sent to an unrelated point (object reuse, edited
                # state, re-integration after a roll-back): cached slopes must not leak into that step
                # the constants passed to the rhs may differ from step to step (k scales f): a slope cached from the previous call
                # belongs to the previous constants
                ks=[draw(st.sampled_from([1.0, 1.0, 0.5, -1.5])) for _ in range(3)],
                inplace=draw(st.booleans()),          # the same dict object, edited in place between the calls (system.constants['k'] = ...)
                stiff=(draw(st.sampled_from([1.0, 1.0, 1.0, 10.0, 40.0])) if not linear else draw(st.sampled_from([1.0, 10.0, 40.0, 100.0, 400.0]))) if kind == "implicit" else 1.0,
                linear=linear,
                layout=draw(st.sampled_from(["C", "C", "F"])),
                persistent_out=draw(st.sampled_from([False, False, False, True])),
                # y' = y written as `return y`: the function hands back the very array it was given (or, every other call, a view of
                # it) - whatever buffer the integrator assembled the stage argument in
                returns_argument=draw(st.sampled_from([False] * 7 + [True])),
                # any right-hand side, writing into ONE preallocated array that it hands back on every call
                reuse_buffer=draw(st.sampled_from([False] * 5 + [True])),
                mid_fault=draw(st.sampled_from([None, None, None, 1, 2, 4, 7, 12])),
                # between two judged calls the public step() method is called directly (a trial step with another size from the
                # reached point, or a step somewhere else): it leaves its own slopes in the integrator's buffers
                direct_step=(draw(st.sampled_from([None, None, "same_point", "same_point", "elsewhere"])) if kind != "implicit" else None),
                prelude_fault=draw(st.sampled_from([None, None, None, 2, 5, 9, 14, 20, 33])),
                prelude_overflow=(draw(st.sampled_from([False, False, False, True])) if kind != "implicit" else False),
                # a transient fault INSIDE the judged call, of a type the integrators answer with a second attempt of the step
                # (ValueError / LinAlgError): if the call returns, what it returns is judged like any other step
                swallowed_fault=draw(st.sampled_from([None, None, None, None, 1, 2, 3, 4, 6, 9])), swallowed_kind=draw(st.sampled_from(["ValueError", "LinAlgError"])),
                # ("repeat_start": the next call starts again from the very (t, y) the previous call started from - a step retaken
                #  with another step size or, through `ks`, with other constants in the same dict)
                jump_mode=draw(st.sampled_from(["full", "full", "state_one_component", "state_one_component", "state_all_components", "time_only", "repeat_start", "repeat_start"])),
                jump_index=draw(st.integers(0, 5)),
                jump=[draw(st.booleans()) for _ in range(2)], jump_y=draw(PR.state(rhs["shape"])), jump_t=draw(st.sampled_from([0.5, -1.25, 7.0])))


def parts(tier):
    q = tier == "quick"
    return [
        Part("explicit", strategy=_case("explicit"), examples=3000 if q else 40000, timeout=120),
        Part("implicit", strategy=_case("implicit"), examples=2400 if q else 20000, timeout=300),
        Part("split", strategy=_case("split"), examples=1000 if q else 10000, timeout=120),
    ]


def _tderiv(f, ymax):
    p = f.p
    P, Q, R, u = f._mats(np.float64)
    ninf = lambda A: float(np.max(np.sum(np.abs(A), axis=1))) if A.size else 0.0
    return abs(p["a"] * p["w"]) * (ninf(P) * ymax + ninf(Q)) + abs(p["c"] * p["w2"]) * float(np.max(np.abs(u)))


def check(case):
    from desolver import DiffRHS
    from desolver.exception_types import FailedToMeetTolerances
    name, dtname, kind = case["method"], case["dtype"], case["part"]
    dt = M.DTYPES[dtname]
    W = M.wider(dtname)
    eps = float(np.finfo(dt).eps)
    rp = case["rhs"]
    if case.get("stiff", 1.0) != 1.0:
        rp = dict(rp, P=[[x * case["stiff"] for x in row] for row in rp["P"]])     # stiffer stage systems: Newton works harder / fails
    if case.get("persistent_out"):
        nn = int(np.prod(rp["shape"]))
        zero = [[0.0] * nn for _ in range(nn)]
        rp = dict(rp, P=zero, Q=zero, a=0.0, c=1.0, w2=0.0, u=[(0.5 + 0.25 * i) * (-1) ** i for i in range(nn)])      # y' = u
    if case.get("returns_argument") and not case.get("persistent_out"):
        nn = int(np.prod(rp["shape"]))
        zero = [[0.0] * nn for _ in range(nn)]
        rp = dict(rp, P=[[1.0 if i == j else 0.0 for j in range(nn)] for i in range(nn)], Q=zero, a=0.0, c=0.0)      # y' = y
    f0 = PR.Prog(rp)
    kbox = [1.0]
    evals = [0]
    fault_at = [None]
    fault_exc = [None]
    buf = {}
    rbuf = {}
    tampered = []

    class Boom(Exception):
        pass

    class Scaled(object):
        """f scaled by the constant k of the current call (the harness' reference uses the same k)"""
        shape, n, p = f0.shape, f0.n, f0.p
        nonlinear, time_dependent = f0.nonlinear, f0.time_dependent
        _mats = f0._mats

        def __call__(self, t, y, **kw):
            evals[0] += 1
            if fault_at[0] is not None and evals[0] == fault_at[0]:
                fault_at[0] = None
                raise (fault_exc[0] or Boom)("injected at evaluation {}".format(evals[0]))
            if case.get("returns_argument") and not case.get("persistent_out") and kw.get("k", kbox[0]) == 1.0 and isinstance(y, np.ndarray):
                return y if evals[0] % 2 else y[...]
            out = f0(t, y) * np.asarray(y).dtype.type(kw.get("k", kbox[0]))
            if case.get("reuse_buffer") and not case.get("persistent_out") and isinstance(y, np.ndarray) and np.asarray(y).dtype == np.dtype(dt):
                # (calls made by the library only: the harness' reference evaluations use wider types and get fresh arrays)
                slot = rbuf.setdefault((out.shape, out.dtype.str), np.empty_like(out))
                slot[...] = out
                return slot
            if not case.get("persistent_out"):
                return out
            # the user's function hands out ONE buffer it owns (preallocated output): what it returned last time must still
            # be in there, untouched, when it is called again
            # (only for a constant right-hand side, y' = c: `lambda t, y: c` hands out the same array object every time and
            #  never rewrites it - whoever scales it in place corrupts the user's constant)
            key = (out.shape, out.dtype.str, float(kw.get("k", kbox[0])))
            if key in buf:
                if not np.array_equal(buf[key][0], buf[key][1], equal_nan=True):
                    tampered.append("evaluation {}: the constant array the right-hand side returns was changed from {} to {}".format(
                        evals[0], buf[key][1].reshape(-1)[:3].tolist(), buf[key][0].reshape(-1)[:3].tolist()))
                    buf[key][0][...] = buf[key][1]
            else:
                buf[key] = [out.copy(), out.copy()]
            return buf[key][0]

        def jac(self, t, y, **kw):
            return f0.jac(t, y) * np.asarray(y).dtype.type(kw.get("k", kbox[0]))

        def lipschitz(self):
            return f0.lipschitz() * abs(kbox[0])

        def magnitude(self, ymax):
            return f0.magnitude(ymax) * abs(kbox[0])
    f = Scaled()
    shape = f.shape
    n = f.n
    cls = M.get(name)
    labels = ["method:" + name, "dtype:" + dtname, "h<0" if case["h"] < 0 else "h>0", "family:" + M.family(cls)] + (["rhs_returns_its_argument"] if case.get("returns_argument") and not case.get("persistent_out") else []) + (["rhs_hands_back_one_preallocated_array"] if case.get("reuse_buffer") and not case.get("persistent_out") else [])
    viols = []
    metrics = {}
    sig = "{}:{}".format(M.family(cls), dtname)
    attrs = dict(method=name, dtype=dtname)

    y = np.asarray(case["y"], dtype=dt).reshape(shape)
    if case.get("layout") == "F" and y.ndim >= 2:
        y = np.asfortranarray(y)          # same values and shape, non-C memory order
    t = dt(case["t"])
    h = dt(case["h"])
    tol = case["tol"]
    integ = cls(sys_dim=shape, dtype=dt, rtol=tol, atol=tol)
    if case.get("user_jac"):
        rhs = DiffRHS(f)
    else:
        rhs = DiffRHS(lambda t, y, **kw: f(t, y, **kw))
    returned_steps = 0
    shared_constants = {}
    Lf = f.lipschitz()

    if case.get("prelude_fault") is not None:
        # before the judged steps the same integrator object makes a call elsewhere, with a long step (rejected and retried when
        # the tolerance is tight), during which the right-hand side raises: whatever that call left behind must not leak
        fault_at[0] = evals[0] + case["prelude_fault"]
        try:
            integ(rhs, dt(case["jump_t"]), np.asarray(case["jump_y"], dtype=dt).reshape(shape), {"k": 1.0}, dt(math.copysign(2.0 if kind != "implicit" else 0.5, case["h"])))
            labels.append("prelude_completed")
        except Boom:
            labels.append("prelude_call_died_in_rhs")
        except Exception as e:
            if exc_origin(e)[0] == "harness":
                raise
            labels.append("prelude_failed:" + type(e).__name__)
        fault_at[0] = None

    if case.get("prelude_overflow"):
        # before the judged steps the same integrator object takes a step of a right-hand side that overflows (every slope +-inf):
        # the non-finite stage values and increment it leaves in its buffers must not reach later steps (0 * inf = nan)
        def overflowing(t_, y_, **kw):
            return np.full(np.shape(y_), np.inf, dtype=dt) * np.where(np.arange(np.size(y_)).reshape(np.shape(y_)) % 2 == 0, 1.0, -1.0).astype(dt)
        try:
            with np.errstate(all="ignore"):
                integ(DiffRHS(overflowing), dt(case["jump_t"]), np.asarray(case["jump_y"], dtype=dt).reshape(shape), {"k": 1.0}, dt(math.copysign(0.5, case["h"])))
            labels.append("prelude_overflowed:returned")
        except Exception as e:
            if exc_origin(e)[0] == "harness":
                raise
            labels.append("prelude_overflowed:" + type(e).__name__)

    for step_no in range(case["nsteps"]):
        y_in = y.copy()
        t_in = dt(t)
        kbox[0] = case.get("ks", [1.0, 1.0, 1.0])[step_no]
        if case.get("inplace"):
            shared_constants["k"] = kbox[0]
            cdict = shared_constants
        else:
            cdict = {"k": kbox[0]}
        if case.get("swallowed_fault") is not None and step_no == 0:
            fault_at[0] = evals[0] + case["swallowed_fault"]
            fault_exc[0] = ValueError if case.get("swallowed_kind") == "ValueError" else np.linalg.LinAlgError
        try:
            try:
                next_dt, (dT, dY) = integ(rhs, t, y, cdict, h)
            finally:
                labels.append("transient_fault_in_judged_call:" + ("not_reached" if fault_at[0] is not None else "raised")) if fault_exc[0] is not None else None
                fault_at[0] = None
                injected_type, fault_exc[0] = fault_exc[0], None
        except FailedToMeetTolerances as e:
            labels.append("reported_failure")
            blown = float(np.max(np.abs(np.asarray(y, dtype=np.float64)))) > 1e8 * (1.0 + float(np.max(np.abs(np.asarray(case["y"], dtype=np.float64)))))
            if blown:
                # an earlier step sat next to a pole of the stability function (ImplicitMidpoint at h J = 2: the stage system is
                # solvable but its solution is 1e17) and the state is astronomically large: nothing to conclude from a failure now
                labels.append("state_blown_up_by_an_earlier_step")
            if case.get("linear") and M.family(cls) == "implicit_fixed" and dtname != "float32" and not blown:
                # linear stage system (I - h A (x) J) K = rhs: unless it is close to singular, failing to solve it means the
                # solver was handed a wrong Jacobian. (Only methods without an error estimator: an embedded pair also raises
                # this when its error test cannot be met - RadauIIA19 in float32 - which says nothing about the stage solve.)
                Atab = M.tableau(name)[1]
                Jf = np.asarray(f.jac(float(t), np.asarray(y, dtype=np.float64)), dtype=np.float64).reshape(f.n, f.n)
                Sm = np.eye(Atab.shape[0] * f.n) - float(h) * np.kron(Atab, Jf)
                cond = float(np.linalg.cond(Sm))
                metrics["linear_stage_cond_at_failure"] = cond
                if cond <= 1e6:
                    viols.append(V("linear_stage_system_unsolved", "{} step {}: the stage equations of a LINEAR problem (condition number {:.1e}, h |J| = {:.2f}) were reported unsolvable: {!r}".format(
                        name, step_no, cond, abs(float(h)) * float(np.max(np.sum(np.abs(Jf), axis=1))), e), sig, **attrs))
            break
        except Exception as e:
            if injected_type is not None and isinstance(e, injected_type) and str(e).startswith("injected at evaluation"):
                labels.append("transient_fault_propagated")      # (raised outside the part of the call that is attempted twice)
                break
            origin, where = exc_origin(e)
            if origin == "harness":
                raise
            if isinstance(e, np.linalg.LinAlgError) and kind == "implicit":
                # an exactly singular stage system (I - h' A (x) J) at the requested step or at one of the retried steps
                # h' = 0.8^j h (LobattoIIIB2 on y' = -5 y: h' = -0.4 gives 1 - h' J / 2 = 0) has no solution: raising is a
                # report of failure, not a wrong step
                Atab = M.tableau(name)[1]
                Jf = np.asarray(f.jac(float(t), np.asarray(y, dtype=np.float64)), dtype=np.float64).reshape(f.n, f.n)
                conds = [float(np.linalg.cond(np.eye(Atab.shape[0] * f.n) - float(h) * 0.8 ** j * np.kron(Atab, Jf))) for j in range(12)]
                if max(conds) > 1e12:
                    labels.append("reported_failure:singular_stage_system")
                    break
                if case.get("linear") and max(conds) <= 1e6:
                    viols.append(V("linear_stage_system_unsolved", "{} step {}: the stage equations of a LINEAR problem (condition number <= {:.1e} at every retried step) raised {!r}".format(
                        name, step_no, max(conds), e), sig, **attrs))
                    break
                if not case.get("linear"):
                    # the built-in dogleg (longdouble path) can drive its Broyden matrix singular on an ill-conditioned but
                    # solvable nonlinear stage system: the linear-algebra error is the integrators' failure protocol (an
                    # OdeSystem reports it as FailedIntegration) - no step is handed back, which is all C02 demands
                    labels.append("reported_failure:solver_raised_linalg")
                    break
            viols.append(V("step_raised", "{} step {} raised {!r} (t={}, h={}, y={})".format(name, step_no, e, float(t), float(h), y.tolist()),
                           sig + exc_sig(e), **attrs))
            break
        returned_steps += 1
        # ---- interface conditions
        if not np.array_equal(y, y_in) or t != t_in:
            viols.append(V("inputs_modified", "{} modified its input state/time".format(name), sig, **attrs))
        dTf = float(dT)
        if np.shape(dY) != shape or np.shape(dT) != ():
            viols.append(V("shape", "{}: increment shape {} / dT shape {} for state shape {}".format(
                name, np.shape(dY), np.shape(dT), shape), sig, **attrs))
            break
        if np.asarray(dY).dtype != np.dtype(dt):
            labels.append("increment_dtype_differs")  # not demanded by the property (C03 demands it of the stored values)
        if not np.all(np.isfinite(np.asarray(dY, dtype=np.float64))) or not np.isfinite(dTf):
            viols.append(V("nonfinite", "{} returned a non-finite step".format(name), sig, **attrs))
            break
        if dTf == 0 or np.sign(dTf) != np.sign(float(h)) or abs(dTf) > abs(float(h)) * (1 + 4 * eps):
            viols.append(V("dT_bounds", "{}: requested h={!r}, step taken dT={!r} (must have the sign of h and |dT| <= |h|)".format(
                name, float(h), dTf), sig, **attrs))
        fam = M.family(cls)
        if fam in ("explicit_fixed", "splitting") and dTf != float(h):
            viols.append(V("dT_fixed", "{} is not adaptive but took dT={!r} for h={!r}".format(name, dTf, float(h)), sig, **attrs))

        yW = y.astype(W)
        tW = W(t)
        dTW = W(dT)
        dYW = np.asarray(dY).astype(W)
        if kind == "split":
            tab = np.asarray(cls.tableau_intermediate, dtype=np.float64)
            kick = np.zeros(shape, dtype=W)
            kick[shape[0] // 2:] = 1
            drift = 1 - kick
            d = np.zeros(shape, dtype=W)
            tau = tW
            fmax = 0.0
            for srow in tab:
                F = f(tau, yW + d)
                fmax = max(fmax, float(np.max(np.abs(F))))
                tau = tau + dTW * W(srow[1])
                d = d + dTW * F * (W(srow[1]) * drift + W(srow[2]) * kick)
            wsum = float(np.sum(np.abs(tab[:, 1]) + np.abs(tab[:, 2])))
            ymax = float(np.max(np.abs(yW))) + abs(dTf) * wsum * fmax
            allowed = 2 * (n + len(tab) + 4) * eps * (abs(dTf) * wsum * (fmax + Lf * ymax + f.magnitude(ymax) + abs(float(t)) * _tderiv(f, ymax))) * np.exp(abs(dTf) * Lf * wsum)
            allowed += 4 * eps * float(np.max(np.abs(dYW)))
            err = float(np.max(np.abs(d - dYW)))
            metrics["split_err/allowed"] = err / allowed if allowed > 0 else 0.0
            if not err <= allowed:
                viols.append(V("split_composition", "{} ({}): increment differs from the drift/kick composition of its table by {:.3e} (allowed {:.3e}); t={}, h={}, step {}".format(
                    name, dtname, err, allowed, float(t), dTf, step_no), sig, **attrs))
        else:
            c, A, B = M.tableau(name)
            s = len(c)
            K = np.asarray(integ.stage_values).astype(W)
            if K.shape != shape + (s,):
                viols.append(V("stage_shape", "{}: stage_values shape {} expected {}".format(name, K.shape, shape + (s,)), sig, **attrs))
                break
            Kabs = np.array([float(np.max(np.abs(K[..., j]))) for j in range(s)])
            res2 = 0.0
            worst = 0.0
            floor2 = 0.0
            for i in range(s):
                arg = yW + dTW * sum(W(A[i, j]) * K[..., j] for j in range(s) if A[i, j] != 0) if np.any(A[i] != 0) else yW.copy()
                Ki = f(tW + W(c[i]) * dTW, arg)
                argmag = float(np.max(np.abs(yW))) + abs(dTf) * float(np.sum(np.abs(A[i]) * Kabs))
                allowed = 2 * (n + s + 4) * eps * (Lf * argmag + f.magnitude(argmag) + (abs(float(t)) + abs(dTf)) * _tderiv(f, argmag) + Kabs[i])
                err = float(np.max(np.abs(Ki - K[..., i])))
                res2 += float(np.sum((Ki - K[..., i]) ** 2))
                floor2 += n * allowed ** 2
                if kind == "explicit":
                    worst = max(worst, err / allowed)
                    if not err <= allowed:
                        viols.append(V("stage_equation", "{} ({}): stage {} slope differs from f(t + c_i dT, y + dT sum a_ij k_j) by {:.3e} (allowed {:.3e}); t={}, dT={}, step {}".format(
                            name, dtname, i, err, allowed, float(t), dTf, step_no), sig, **attrs))
                        break
            if kind == "explicit":
                metrics["stage_err/allowed"] = worst
            else:
                desired = 0.5 * float(np.max(np.abs(tol + np.max(np.abs(tol * yW)))))
                allowed = 4 * desired + np.sqrt(floor2)
                res = np.sqrt(res2)
                metrics["implicit_residual/allowed"] = res / allowed
                if not res <= allowed:
                    viols.append(V("implicit_residual", "{} ({}): returned step has stage residual {:.3e}, solver target {:.3e} (allowed {:.3e}); t={}, dT={}, tol={}, step {}".format(
                        name, dtname, res, desired, allowed, float(t), dTf, tol, step_no), sig, **attrs))
            inc = dTW * sum(W(B[0, j]) * K[..., j] for j in range(s))
            allowed = 4 * (s + 2) * eps * abs(dTf) * float(np.sum(np.abs(B[0]) * Kabs)) + 4 * eps * float(np.max(np.abs(dYW)))
            err = float(np.max(np.abs(inc - dYW)))
            metrics["increment_err/allowed"] = max(metrics.get("increment_err/allowed", 0.0), err / allowed if allowed > 0 else 0.0)
            if not err <= allowed:
                viols.append(V("increment", "{} ({}): increment differs from dT sum b_i k_i by {:.3e} (allowed {:.3e}); t={}, dT={}, step {}".format(
                    name, dtname, err, allowed, float(t), dTf, step_no), sig, **attrs))
        if viols:
            break
        # next step continues from the end of this one with the step size the integrator proposes (clamped) ...
        y = (y + dY).astype(dt)
        t = dt(t + dT)
        if case.get("jump") and step_no < len(case["jump"]) and case["jump"][step_no]:
            # ... or from an unrelated point, on the same integrator object
            mode = case.get("jump_mode", "full")
            if mode == "full":
                y = np.asarray(case["jump_y"], dtype=dt).reshape(shape)
                t = dt(case["jump_t"])
            elif mode == "state_one_component":
                # same time, the state edited in ONE component only (an event handler resetting a position, a Jacobian probe)
                y = y.copy()
                y.reshape(-1)[case.get("jump_index", 0) % y.size] += dt(0.375)
            elif mode == "repeat_start":
                y = y_in.copy()
                t = dt(t_in)
            elif mode == "state_all_components":
                y = (y + np.asarray(case["jump_y"], dtype=dt).reshape(shape) + dt(0.125)).astype(dt)
            else:       # "time_only"
                t = dt(case["jump_t"])
            labels.append("object_reused_at_unrelated_point:" + mode)
        nd = float(next_dt)
        if np.isfinite(nd) and nd != 0 and np.sign(nd) == np.sign(float(h)):
            h = dt(np.sign(nd) * min(abs(nd), 2.0))
        if case.get("direct_step") and step_no == 0:
            try:
                if case["direct_step"] == "same_point":
                    integ.step(rhs, t, y.copy(), cdict, dt(0.5 * h))
                else:
                    integ.step(rhs, dt(case["jump_t"]), np.asarray(case["jump_y"], dtype=dt).reshape(shape), cdict, dt(h))
                labels.append("direct_step_call_between_judged_calls:" + case["direct_step"])
            except Exception as e:
                if exc_origin(e)[0] == "harness":
                    raise
                viols.append(V("step_raised", "{}: a direct call of step() between two calls raised {!r}".format(name, e), sig + exc_sig(e), **attrs))
                break
        if case.get("mid_fault") is not None and step_no == 0:
            # between two steps (of the same size, for fixed-step methods) a call with ANOTHER step size dies in the rhs
            fault_at[0] = evals[0] + case["mid_fault"]
            try:
                integ(rhs, t, y, cdict, dt(2 * h))
                labels.append("mid_call_completed")
            except Boom:
                labels.append("mid_call_died_in_rhs")
            except Exception as e:
                if exc_origin(e)[0] == "harness":
                    raise
                labels.append("mid_call_failed:" + type(e).__name__)
            fault_at[0] = None
    if tampered and not viols:
        viols.append(V("rhs_output_modified", "{} ({}): the library wrote into the array its right-hand side returned: {}".format(name, dtname, tampered[0]), sig, **attrs))
    nontrivial = n >= 2 and f.nonlinear and f.time_dependent and returned_steps >= 1
    if returned_steps >= 2:
        labels.append("consecutive_steps")
    return viols, dict(nontrivial=nontrivial, labels=labels, metrics=metrics)
