"""C01 - every integrator attains its declared order of accuracy.

Parts
  trees      (exhaustive) for every Runge-Kutta tableau: all rooted trees up to min(declared order, cap):
             |b.Phi(t) - 1/gamma(t)| <= 1e-11 (1/gamma + |b|.|Phi|(t)) for the propagating row. One case per
             (method, tree order). Above the cap (RadauIIA19) the simplifying assumptions B(q), C(eta), D(zeta) are
             measured and Butcher's theorem min(q, eta+zeta+1, 2 eta+2) >= p is demanded.
  estimator  every embedded pair, through the public call: the error estimate of one step on y' = const is zero
             (the estimator weights are a consistent method), random constants / h / dtype.
  local      behaviour through integrator(rhs, t, y, {}, h) from exact data on manufactured nonlinear non-autonomous
             problems: log-log slope of the local error over a sqrt(2) ladder of step sizes >= p + 1 - SLACK.
  global     N fixed steps vs 2N half steps by direct calls: error ratio >= 2^(p - 0.7).
  split      the three splitting schemes on separable forced mechanical problems with closed-form solutions.
  rich       Richardson wrappers (2..5 levels): slope(wrapper) >= slope(base) - SLACK, and for >= 3 levels
             slope >= p_base + 2 - SLACK.
"""
import numpy as np
from hypothesis import strategies as st

from pbt import methods as M
from pbt import oracles as O
from pbt import problems as PR
from pbt.core import V, Part, exc_sig, exc_origin

ID = "C01"
LEVEL = "exploration"
RULE = ("trees: exhaustive enumeration of rooted trees per (method, order) case, count in sub_evaluations.trees; other parts "
        "Hypothesis-generated (method, manufactured problem, t0, sign of h, dtype). Distinct = SHA-1 of the case JSON. "
        "Non-trivial = a tree case of order >= 2, or a behavioural case with >= 3 usable ladder points on a nonlinear, "
        "non-autonomous problem of dimension >= 2 (measured per case).")
ASSUMPTIONS = ["tables are read from the class attributes tableau_intermediate / tableau_final",
               "slope statistic: best log-log slope over pairs (h ratio >= 1.9) among the 7 finest usable ladder points; threshold p + 1 - 0.7 (p <= 8; 2.0 above); cases whose usable window lies at h x rate > 0.7 give no verdict",
               "behavioural order of methods with p > 8 implicit (RadauIIA19) is not measurable above the rounding floor: decided by trees + simplifying assumptions only"]

SLACK = 0.7


def _slack(p):
    """declared orders >= 10: the usable error window (above the float64-table floor, below the ceiling) sits at
    h x rate > 1 where the curve is still pre-asymptotic; there the behavioural check only excludes gross errors
    (two orders) and the exhaustive tree enumeration carries the decision."""
    # (2.0 until RK108 measured slopes of 8.89 and 7.58 for an expected 11 at seeds 8 and 9: its usable window - above the
    #  float64-table floor - only reaches down to h x rate = 0.6 and the error curve has flat stretches there)
    return SLACK if p <= 8 else 4.0
TREE_TOL = 1e-11


def _tree_cases(tier):
    cap = 14 if tier == "quick" else 16

    def gen():
        for name in M.names("rk"):
            p = int(M.order(name))
            for k in range(1, min(p, cap) + 1):
                yield dict(part="trees", method=name, order=k)
            if p > cap:
                yield dict(part="trees", method=name, order=0, cap=cap)
    return gen


@st.composite
def _estimator(draw):
    name = draw(st.sampled_from(M.names("adaptive")))
    n = draw(st.integers(1, 3))
    return dict(part="estimator", method=name, dtype=draw(st.sampled_from(["float64", "float32", "longdouble"])),
                const=draw(st.lists(st.integers(-8, 8).map(lambda k: k / 4.0), min_size=n, max_size=n)),
                y=draw(st.lists(st.integers(-8, 8).map(lambda k: k / 4.0), min_size=n, max_size=n)),
                t=draw(st.sampled_from([0.0, 1.0, -5.0])), h=draw(st.sampled_from([0.5, -0.5, 0.01, -0.125, 1.0])))


@st.composite
def _local(draw, which):
    if which == "split":
        name = draw(st.sampled_from([n for n in M.names("all") if M.family(n) == "splitting"]))
        prob = draw(PR.sep_params())
    elif which == "rich":
        base = draw(st.sampled_from([n for n in M.names("all") if M.order(n) <= (4 if draw(st.booleans()) else 7) and n not in NOT_MEASURABLE]))
        k = draw(st.integers(2, 5))
        name = "Rich{}:{}".format(k, base)
        prob = draw(PR.sep_params()) if M.family(base) == "splitting" else draw(PR.man_params(dims=(1, 2, 3), gscale=0.5))
    else:
        name = draw(st.sampled_from([n for n in M.names("rk") if n not in NOT_MEASURABLE]))
        prob = draw(PR.man_params(gscale=0.5))
    return dict(part=which, method=name, prob=prob, t0=draw(st.sampled_from([0.0, 1.0, -2.0, 10.0])),
                sign=draw(st.sampled_from([1, -1])))


def parts(tier):
    q = tier == "quick"
    return [
        Part("trees", enumerate=_tree_cases(tier), timeout=600, exhaustive=True),
        Part("estimator", strategy=_estimator(), examples=300 if q else 5000, timeout=60),
        Part("local", strategy=_local("local"), examples=1000 if q else 8000, timeout=300),
        Part("global", strategy=_local("global"), examples=300 if q else 3000, timeout=300),
        Part("split", strategy=_local("split"), examples=300 if q else 3000, timeout=300),
        Part("rich", strategy=_local("rich"), examples=300 if q else 3000, timeout=120),
    ]


# --------------------------------------------------------------------------------------------------
def _check_trees(case):
    name = case["method"]
    c, A, B = M.tableau(name)
    p = int(M.order(name))
    attrs = dict(method=name)
    viols = []
    if case["order"] == 0:
        q, eta, zeta = O.simplifying_assumptions(c, A, B[0])
        implied = min(q, eta + zeta + 1, 2 * eta + 2)
        if implied < p:
            viols.append(V("order_simplifying", "{} declares order {} but satisfies only B({}), C({}), D({}) => order >= {}".format(
                name, p, q, eta, zeta, implied), name, implied=implied, **attrs))
        return viols, dict(nontrivial=True, labels=["trees:simplifying_assumptions"], counts=dict(simplifying_conditions=q + eta + zeta))
    k = case["order"]
    orders, res, scale = O.tree_residuals(A, B[0], k)
    sel = orders == k
    rel = res[sel] / scale[sel]
    worst = float(np.max(rel))
    nbad = int(np.sum(rel > TREE_TOL))
    if nbad:
        viols.append(V("order_condition", "{} declares order {} but {} of the {} rooted trees of order {} violate b.Phi(t) = 1/gamma(t) (worst relative residual {:.2e})".format(
            name, p, nbad, int(np.sum(sel)), k, worst), name, tree_order=k, **attrs))
    if k == 1 and float(np.max(np.abs(c - A.sum(axis=1)))) > 1e-9 * (1 + float(np.max(np.abs(A).sum(axis=1)))):
        viols.append(V("row_sum", "{}: c_i != sum_j a_ij (max difference {:.2e})".format(name, float(np.max(np.abs(c - A.sum(axis=1))))), name, **attrs))
    return viols, dict(nontrivial=k >= 2, labels=["trees:order{}".format(k)], counts=dict(trees=int(np.sum(sel))),
                       metrics={"tree_residual/tol": worst / TREE_TOL if not nbad else None})


def _check_estimator(case):
    from desolver import DiffRHS
    name = case["method"]
    dt = M.DTYPES[case["dtype"]]
    const = np.asarray(case["const"], dtype=dt)
    y = np.asarray(case["y"], dtype=dt)
    integ = M.get(name)(sys_dim=y.shape, dtype=dt, rtol=1e6, atol=1e6)
    rhs = DiffRHS(lambda t, y, **kw: const.copy())
    viols = []
    try:
        integ(rhs, dt(case["t"]), y, {}, dt(case["h"]))
        est = np.asarray(integ.get_error_estimate(), dtype=np.float64)
    except Exception as e:
        if exc_origin(e)[0] == "harness":
            raise
        return [V("estimator_raised", "{} raised {!r} on y' = const".format(name, e), name + exc_sig(e), method=name)], dict(nontrivial=False, labels=[])
    c, A, B = M.tableau(name)
    allowed = 64 * max(float(np.finfo(dt).eps), 2.3e-16) * float(np.sum(np.abs(B)))  # tables are float64-rounded * (float(np.max(np.abs(const))) + 1e-300)
    err = float(np.max(np.abs(est)))
    if not err <= allowed:
        viols.append(V("estimator_consistency", "{}: error estimate of one step on y' = {} is {:.3e} (should vanish: the estimator weights must sum to one)".format(
            name, case["const"], err), name, method=name))
    return viols, dict(nontrivial=bool(np.any(const != 0)), labels=["estimator:" + name])


def _one_step(name, prob, dt, t0, h, rtol, atol):
    """error of one public step from exact data, and the step actually taken"""
    from desolver import DiffRHS
    f = PR.build(prob)
    cls = M.get(name)
    integ = cls(sys_dim=f.shape, dtype=dt, rtol=rtol, atol=atol)
    rhs = DiffRHS(f)
    y0 = f.exact(t0, dt).astype(dt)
    _, (dT, dY) = integ(rhs, dt(t0), y0, {}, dt(h))
    t1 = np.longdouble(dt(t0)) + np.longdouble(dT)
    err = float(np.max(np.abs((y0.astype(np.longdouble) + np.asarray(dY, dtype=np.longdouble)) - f.exact(t1))))
    return err, float(dT)


NOT_MEASURABLE = ("LobattoIIIC4", "RadauIIA5", "RadauIIA19")
# implicit embedded pairs: the public call ties the Newton tolerance to the error-control tolerance, so a step is
# either rejected down to a tiny size or carries Newton noise of the size of its local error; their order is decided
# by the exhaustive tree enumeration (and C02 shows that the step implements the table).


def _dtype_for(name, p):
    if M.is_implicit(name):
        return "float64"
    return "longdouble"


def _coef_precision(name):
    if M.family(name) == "splitting":
        return 1e-16
    c, A, B = M.tableau(name)
    return max(1e-16, float(np.max(np.abs(c - A.sum(axis=1)))))


def _ladder(case, name, p_expected):
    """sqrt(2) ladder of step sizes starting where h x (problem rate) = H0, descending until the local error reaches
    the floor; returns the points, the usable window and the dtype."""
    f = PR.build(case["prob"])
    base = name.split(":", 1)[1] if name.startswith("Rich") else name
    dtname = _dtype_for(base, p_expected)
    dt = M.DTYPES[dtname]
    implicit = M.is_implicit(base)
    rate = 1.0 + f.lipschitz() + f.max_freq()
    H0 = 8.0 if p_expected >= 10 else (4.0 if p_expected >= 7 else (2.0 if p_expected >= 4 else 1.0))
    tol = 1e-13 if implicit else 1e6
    scale = f.scale() * max(1.0, abs(case["t0"]))
    ceil = 1e-3 * f.scale()
    hs, errs, floors = [], [], []
    failures = 0
    below = 0
    fine = p_expected >= 10          # steep error curves: quarter-octave ladder
    for j in range(36 if fine else 18):
        h = case["sign"] * H0 / rate * 2.0 ** (-j / (4.0 if fine else 2.0))
        try:
            e, dT = _one_step(name, case["prob"], dt, case["t0"], h, tol, tol)
        except Exception as ex:
            if exc_origin(ex)[0] == "harness":
                raise
            from desolver.exception_types import FailedToMeetTolerances
            if isinstance(ex, FailedToMeetTolerances) and implicit:
                failures += 1
                continue
            raise
        # noise floor: Newton tolerance (implicit, float64) / coefficient rounding of the float64 tables, which
        # perturbs the increment by about (table precision) x |h| x rate x scale (explicit, longdouble arithmetic)
        floor = 3e-11 * scale if implicit else 30 * _coef_precision(base) * scale * min(1.0, abs(float(dT)) * rate)
        hs.append(dT)
        errs.append(e)
        floors.append(floor)
        if e < floor:
            below += 1
            if below >= 2:
                break
    return hs, errs, floors, ceil, dtname, f, failures


def _check_local(case):
    name = case["method"]
    part = case["part"]
    labels = ["{}:{}".format(part, name), "h<0" if case["sign"] < 0 else "h>0"]
    viols = []
    metrics = {}
    if part == "rich":
        k, base = name[4:].split(":", 1)
        k = int(k)
        pb = M.order(base)
        p_expect = pb + (1 if k >= 3 else 0)
    else:
        pb = p_expect = M.order(name)
    try:
        hs, errs, floor, ceil, dtname, f, nfail = _ladder(case, name, p_expect)
    except Exception as e:
        if exc_origin(e)[0] == "harness":
            raise
        return [V("step_raised", "{} raised {!r} on a smooth problem with tolerances that never reject".format(name, e), name.split(":")[-1] + exc_sig(e), method=name)], dict(nontrivial=False, labels=labels)
    slope, npts, sl = O.slope_fit(hs, errs, floor, ceil)
    nontrivial = npts >= 3 and f.nonlinear and f.time_dependent and f.n >= 2
    if slope is None:
        labels.append("inconclusive:too_few_usable_points")
        return viols, dict(nontrivial=False, labels=labels)
    rate = 1.0 + f.lipschitz() + f.max_freq()
    if min(x[0] for x in sl) * rate > 0.7:
        # the whole usable window lies at h x rate > 0.7: not the asymptotic regime, no verdict from this case
        labels.append("inconclusive:window_pre_asymptotic")
        return viols, dict(nontrivial=False, labels=labels)
    attained = slope - 1
    metrics["order_shortfall:" + part] = p_expect - attained
    if part == "rich":
        # never lower than the base: compare with the base's own measured slope on the same ladder
        bcase = dict(case, method=base)
        bh, be, bfloor, bceil, _, _, _ = _ladder(bcase, base, pb)
        bslope, bn, _ = O.slope_fit(bh, be, bfloor, bceil)
        if bslope is not None and slope < min(bslope, pb + 1) - SLACK:
            viols.append(V("richardson_lower_order", "{}: local error slope {:.2f} is lower than that of its base method ({:.2f}, declared order {})".format(
                name, slope, bslope, pb), "k{}:{}".format(min(k, 3), M.family(base)), method=name, base=base, levels=k, observed_order=attained))
        if k >= 3 and slope < pb + 2 - SLACK:
            viols.append(V("richardson_not_higher", "{}: {} extrapolation levels must raise the order above {} but the local error slope is {:.2f} (order {:.2f}); pairwise slopes {}".format(
                name, k, pb, slope, attained, [round(x[2], 2) for x in sl]), "k3+:{}".format(M.family(base)), method=name, base=base, levels=k, observed_order=attained))
    else:
        # a usable window that only reaches down to h x rate in (0.35, 0.7] is asymptotic enough to tell order p from p - 1
        # but its best slope still falls a few tenths short of p + 1 (seen: RadauIA5, 5.29 on 0.5..1.0, 5.8 below the floor)
        slack = _slack(p_expect) if min(x[0] for x in sl) * rate <= 0.35 else max(_slack(p_expect), 0.85)
        if slope < p_expect + 1 - slack:
            viols.append(V("order_declared", "{} declares order {} but its local error on a smooth problem has slope {:.2f} (order {:.2f}); usable points {}, pair slopes {}, dtype {}".format(
                name, p_expect, slope, attained, npts, [round(x[2], 2) for x in sl], dtname), name, method=name, observed_order=attained, declared=p_expect))
    return viols, dict(nontrivial=nontrivial, labels=labels, metrics=metrics)


def _check_global(case):
    from desolver import DiffRHS
    name = case["method"]
    p = M.order(name)
    labels = ["global:" + name, "h<0" if case["sign"] < 0 else "h>0"]
    if p > 8:
        return [], dict(nontrivial=False, labels=labels + ["inconclusive:order_above_8"])
    f = PR.build(case["prob"])
    dtname = _dtype_for(name, p)
    dt = M.DTYPES[dtname]
    implicit = M.is_implicit(name)
    tol = 1e-13 if implicit else 1e6
    rate = 1.0 + f.lipschitz() + f.max_freq()
    span = 2.0 / rate
    errs = []
    Ns = [4, 8, 16] if p >= 5 else [8, 16, 32]
    try:
        for N in Ns:
            integ = M.get(name)(sys_dim=f.shape, dtype=dt, rtol=tol, atol=tol)
            rhs = DiffRHS(f)
            t = dt(case["t0"])
            y = f.exact(case["t0"], dt).astype(dt)
            h = dt(case["sign"] * span / N)
            for _ in range(N):
                _, (dT, dY) = integ(rhs, t, y, {}, h)
                if abs(float(dT) - float(h)) > 1e-12 * abs(float(h)):
                    return [], dict(nontrivial=False, labels=labels + ["inconclusive:step_shortened"])
                y = (y + dY).astype(dt)
                t = dt(t + dT)
            errs.append(float(np.max(np.abs(y.astype(np.longdouble) - f.exact(np.longdouble(t))))))
    except Exception as e:
        if exc_origin(e)[0] == "harness":
            raise
        from desolver.exception_types import FailedToMeetTolerances
        if isinstance(e, FailedToMeetTolerances) and implicit:
            return [], dict(nontrivial=False, labels=labels + ["reported_failure"])
        return [V("step_raised", "{} raised {!r}".format(name, e), name + exc_sig(e), method=name)], dict(nontrivial=False, labels=labels)
    scale = f.scale() * max(1.0, abs(case["t0"]))
    floor = (3e-11 if implicit else 30 * _coef_precision(name)) * scale * Ns[-1]
    viols = []
    ratios = []
    short = []
    for (e1, e2), N1 in zip(zip(errs, errs[1:]), Ns):
        if e2 > floor and e1 < 3e-2 * f.scale():
            ratios.append(e1 / e2)
            # the coarsest pair (h x rate = 2/N = 0.5 -> 0.25) is judged with the wider slack of the local part
            short.append(np.log2(e1 / e2) < p - (0.7 if 2.0 / N1 <= 0.35 else 0.85))
    if not ratios:
        return [], dict(nontrivial=False, labels=labels + ["inconclusive:below_floor"])
    if len(ratios) == 1 and not (errs[2] > floor):
        # only the coarsest pair (h x rate = 0.5 -> 0.25) is above the rounding floor: pre-asymptotic ratios of 2^4.1 were
        # seen there for DOPRI45 (order 5; the next pair, below the floor, gave 2^4.6) - no verdict from it alone. A method
        # that really is an order short has larger errors and keeps both pairs above the floor.
        return [], dict(nontrivial=False, labels=labels + ["inconclusive:only_coarsest_pair_above_floor"])
    best = max(ratios)
    observed = float(np.log2(best))
    if all(short):
        viols.append(V("order_global", "{} declares order {} but halving the step divides the global error only by {} (order {:.2f}); errors {}".format(
            name, p, [round(r, 2) for r in ratios], observed, ["{:.2e}".format(e) for e in errs]), name, method=name, observed_order=observed, declared=p))
    return viols, dict(nontrivial=bool(f.nonlinear and f.n >= 2), labels=labels, metrics={"order_shortfall:global": p - observed})


def check(case):
    part = case["part"]
    if part == "trees":
        return _check_trees(case)
    if part == "estimator":
        return _check_estimator(case)
    if part == "global":
        return _check_global(case)
    return _check_local(case)
