"""C05 - adaptive integration keeps the global error proportional to the tolerances.

Parts
  accuracy   (method among the embedded pairs and sampled Richardson wrappers, linear system with exact exponential
             solution or manufactured nonlinear problem, span of either direction, initial dt from 1e-4 to 4 x span,
             tolerance drawn per method so that the run stays below ~3000 steps). Oracles:
             1. max_k |y_k - y*(t_k)| <= KACC (= 25) x (atol + rtol max|y|) x amplification x sqrt(max(N, 1))
             2. the same run at tol/100: the error bound of oracle 1 holds there too and the number of steps grows
                (proportionality is asserted through oracle 1 at both tolerances, plus: the tighter run is not
                less accurate by more than 10x)
             3. retries: the step sizes offered within one integrator call are recorded by wrapping the step method of
                the integrator *instance*: every retry after a rejection has strictly smaller magnitude than the
                previous attempt (for implicit methods, whose retries also follow unconverged Newton solves: never larger than
                the step first requested) and the same sign; the accepted dT is
                that of the last attempt
             4. a second run whose target lies a sliver (1e-10 .. 8e-6 of a step) past, or just before, a natural step end
                of the first run: the states recorded there obey oracle 1 too (a step that "almost" reaches the target
                is not the target)
  sharp      y' = -K tanh(M y) + cos 3t (nearly discontinuous): steps are rejected many times in a row and the Newton
             iteration of the implicit pairs fails repeatedly; only oracle 3 (retry sizes) and the time grid are judged.
  scaling    metamorphic: for a linear problem and an explicit adaptive method (or a Richardson wrapper of an explicit
             base), scaling (y0, atol) by 2^k leaves the recorded time grid bit-identical and scales the states exactly:
             the error test must be homogeneous in (y, atol) - no absolute floor, no swapped tolerances.
  blowup     y' = y^2, y(0) = 1 integrated across t = 1, and benign problems with tolerances that cannot be met
             (1e-30): either FailedIntegration caused by FailedToMeetTolerances, or every recorded state satisfies
             oracle 1 - a 'successful' run that stores a state at or beyond the singularity is a violation.
"""
import math
import warnings

import numpy as np
from hypothesis import strategies as st

from pbt import methods as M
from pbt import problems as PR
from pbt import traj
from pbt.core import V, Part, exc_sig, exc_origin

ID = "C05"
LEVEL = "exploration"
RULE = ("Hypothesis-generated (adaptive method, problem with exact solution, span, initial dt, tolerance). Distinct = SHA-1 of the "
        "case JSON. Non-trivial = a run with >= 1 rejected step, or backward, or an initial dt larger than the span.")
KACC = 25.0
ASSUMPTIONS = ["accuracy constant KACC = 25 x sqrt(N) x amplification (exp(mu T) for linear, exp(L T) for manufactured problems, capped by construction at e^3); calibrated: worst observed ratio is published as worst_observed['err/bound']",
               "RK1412 on problems with max|h lambda| >= 2 is an open finding (D22) matched narrowly"]

RICH = ["Rich3:RK4Solver", "Rich3:MidpointSolver", "Rich2:RK45CKSolver", "Rich4:HeunEulerSolver", "Rich3:ImplicitMidpoint", "Rich3:ABAs5o6HSolver",
        # deeper extrapolation tableaux (the convergence test can stop the row loop early from 6 levels on)
        "Rich6:MidpointSolver", "Rich7:RK4Solver", "Rich8:EulerSolver"]


def _adaptive_names():
    return list(M.names("adaptive")) + RICH


def _min_tol(method):
    if method.startswith("Rich"):
        p = M.order(method) + 1
    else:
        p = M.order(method)
    if method in ("LobattoIIIC4", "RadauIIA5"):
        p = 3
    return min(1e-3, max(1e-11, 10.0 ** (-(1.5 + 1.1 * p))))


@st.composite
def _accuracy(draw):
    method = draw(st.sampled_from(_adaptive_names()))
    implicit = M.is_implicit(method)
    t0, tf = draw(traj.span(max_len=4.0 if not implicit else 2.0))
    L = abs(tf - t0)
    kind = draw(st.sampled_from(["lin", "lin", "man"]))
    if method.startswith("Rich") and "ABAs" in method:
        kind = "sep"
    if kind == "lin":
        prob = draw(PR.lin_params(dims=(1, 2, 3, 4) if not implicit else (1, 2), horizon=L))
        y0 = draw(PR.state([len(prob["A"])]))
        if all(v == 0 for v in y0):
            y0[0] = 1.0
    elif kind == "sep":
        prob = draw(PR.sep_params(dims=(1,)))
        y0 = None
    else:
        prob = draw(PR.man_params(dims=(1, 2, 3) if not implicit else (1, 2), gscale=0.25))
        y0 = None
    lo = math.log10(_min_tol(method))
    tol = 10.0 ** draw(st.floats(lo, -3.0).map(lambda x: round(x, 1)))
    dtfrac = draw(st.sampled_from([1e-4, 1e-3, 0.01, 0.1, 0.5, 1.0, 4.0]))
    # oracle 4: a second run whose target lies a sliver (snap x step) beyond / before a natural step end of the first run
    snap = draw(st.sampled_from([None, None, 8e-6, 1e-6, 1e-8, 1e-10, -1e-7]))
    if snap is not None and draw(st.booleans()):
        tol = max(_min_tol(method), 10.0 ** draw(st.sampled_from([-9, -10, -11])))
    # tolerances that differ from each other, on states far from magnitude one (linear problems scale freely)
    atol = tol
    if kind == "lin":
        yscale = draw(st.sampled_from([1.0, 1.0, 1e-5, 1e4]))
        y0 = [v * yscale for v in y0]
        if yscale < 1:
            atol = tol * draw(st.sampled_from([1.0, 1e-6, 1e-9]))      # rtol >> atol with |y| << 1
        elif yscale > 1:
            atol = tol * draw(st.sampled_from([1.0, 1e3]))             # atol >> rtol with |y| >> 1
            tol = tol
    return dict(part="accuracy", method=method, dtype="float64", prob=prob, y0=y0, t0=t0, tf=tf, dt=L * dtfrac * draw(st.sampled_from([1.0, -1.0])),
                rtol=tol, atol=atol, dense=False, snap=snap, tol_route=draw(st.sampled_from(["constructor", "constructor", "setters"])))


@st.composite
def _blowup(draw):
    method = draw(st.sampled_from([n for n in _adaptive_names() if not M.is_implicit(n)]))
    which = draw(st.sampled_from(["pole", "pole", "impossible_tol"]))
    if which == "pole":
        return dict(part="blowup", which=which, method=method, dtype="float64", t0=0.0, tf=draw(st.sampled_from([1.5, 2.0, 1.01])),
                    dt=draw(st.sampled_from([0.1, 0.5, 0.01, 2.0])), rtol=draw(st.sampled_from([1e-3, 1e-6, 1e-9])), y0=[1.0])
    return dict(part="blowup", which=which, method=method, dtype="float64", t0=draw(st.sampled_from([0.0, -2.0])), tf=1.0,
                dt=draw(st.sampled_from([0.1, 0.5])), rtol=draw(st.sampled_from([1e-30, 1e-25])), y0=[1.0])


@st.composite
def _scaling(draw):
    method = draw(st.sampled_from([n for n in _adaptive_names() if not M.is_implicit(n)]))
    t0, tf = draw(traj.span(max_len=3.0))
    L = abs(tf - t0)
    prob = draw(PR.lin_params(dims=(1, 2, 3), horizon=L))
    y0 = draw(PR.state([len(prob["A"])]))
    if all(v == 0 for v in y0):
        y0[0] = 1.0
    rtol = 10.0 ** draw(st.sampled_from([-3, -4, -6, -8]))
    rtol = max(rtol, _min_tol(method))
    return dict(part="scaling", method=method, dtype="float64", prob=prob, y0=y0, t0=t0, tf=tf, dt=L * draw(st.sampled_from([0.01, 0.1, 0.5])),
                rtol=rtol, atol=rtol * draw(st.sampled_from([1.0, 1e-3, 1e3, 1e-6])), dense=False, k=draw(st.sampled_from([-17, -10, 13, 20, -30])))


@st.composite
def _sharp(draw):
    """y' = -K tanh(M y) + cos(3 t): smooth but nearly discontinuous - steps are rejected many times in a row and the
    Newton iteration of the implicit pairs fails repeatedly; only the retry rules (oracle 3) and the time grid are judged"""
    method = draw(st.sampled_from(["RadauIIA5", "RadauIIA19", "LobattoIIIC4", "RadauIIA19", "RK45CKSolver", "RK8713MSolver", "DOPRI45"]))
    return dict(part="sharp", method=method, K=draw(st.sampled_from([5.0, 50.0, 500.0])), M=draw(st.sampled_from([20.0, 200.0, 2000.0])),
                dt=draw(st.sampled_from([0.05, 0.3, 1.0])), y0=draw(st.sampled_from([0.3, -1.0, 0.0, 2.5])), sign=draw(st.sampled_from([1.0, 1.0, -1.0])),
                t0=draw(st.sampled_from([0.0, -2.0, 5.0])), L=draw(st.sampled_from([0.5, 2.0])), rtol=draw(st.sampled_from([1e-3, 1e-4, 1e-6])))


def parts(tier):
    q = tier == "quick"
    return [Part("sharp", strategy=_sharp(), examples=96 if q else 3000, timeout=300),
            Part("scaling", strategy=_scaling(), examples=300 if q else 6000, timeout=300),
            Part("accuracy", strategy=_accuracy(), examples=500 if q else 10000, timeout=600),
            Part("blowup", strategy=_blowup(), examples=60 if q else 1500, timeout=300),
            Part("half", strategy=_half(), examples=200 if q else 4000, timeout=300),
            Part("tol_setters", strategy=_tol_setters(), examples=120 if q else 3000, timeout=300)]


@st.composite
def _tol_setters(draw):
    """the same run with its tolerances (a) given to the constructor and (b) assigned to system.rtol / system.atol after the
    method was selected: rtol and atol six orders apart, states of magnitude 1e4 / 1e-5, shallow Richardson wrappers and
    embedded pairs (whose error follows the tolerance closely)"""
    method = draw(st.sampled_from(["Rich3:RK4Solver", "Rich3:MidpointSolver", "Rich2:RK45CKSolver", "RK45CKSolver", "DOPRI45", "RK8713MSolver", "HeunEulerSolver"]))
    t0 = draw(st.sampled_from([0.0, 1.0, -2.0]))
    L = draw(st.sampled_from([2.0, -2.0, 3.0]))
    w = draw(st.sampled_from([1.0, 2.0, 0.5]))
    damp = draw(st.sampled_from([0.0, -0.25]))
    big = draw(st.booleans())
    tol = draw(st.sampled_from([1e-6, 1e-7, 1e-8])) if method != "HeunEulerSolver" else 1e-5
    rtol, atol = (tol * 1e-3, tol * 1e3) if big else (tol, tol * 1e-9)
    ys = 1e4 if big else 1e-5
    return dict(part="tol_setters", method=method, dtype="float64", prob=dict(kind="lin", A=[[damp, w], [-w, damp]]), y0=[ys * draw(st.sampled_from([1.0, 2.0, -0.5])), ys * draw(st.sampled_from([0.0, 1.0]))],
                t0=t0, tf=t0 + L, dt=abs(L) * draw(st.sampled_from([0.05, 0.25, 1.0])), rtol=rtol, atol=atol, dense=False, snap=None, order=draw(st.sampled_from(["rtol_first", "atol_first"])))


@st.composite
def _half(draw):
    """half precision (float16): the norm of the scaled error estimate overflows already at a ratio of 256 - a first attempt far
    too long for the tolerance must still be rejected, not waved through"""
    return dict(part="half", method=draw(st.sampled_from(["HeunEulerSolver", "RK45CKSolver", "DOPRI45", "RK8713MSolver"])), dtype="float16",
                lam=draw(st.sampled_from([-3.0, -1.0, -0.5, 2.0, 1.0])), y0=[draw(st.sampled_from([1.0, -0.5, 2.0, 0.25])) for _ in range(draw(st.integers(1, 3)))],
                t0=draw(st.sampled_from([0.0, 1.0, -2.0])), L=draw(st.sampled_from([2.0, -2.0, 1.0, -1.0])),
                dtf=draw(st.sampled_from([4.0, 2.0, 1.0, 0.5, 0.1])), tol=draw(st.sampled_from([2e-3, 5e-3, 1e-2])))


class Recorder(object):
    """wraps integrator.step (tableau integrators) or integrator.adaptive_richardson (wrappers) on the instance"""

    def __init__(self, integ):
        self.attempts = []   # (initial_time, offered step)
        self.integ = integ
        if hasattr(integ, "adaptive_richardson"):
            inner = integ.adaptive_richardson

            def rec(rhs, t, y, constants, timestep):
                self.attempts.append((float(t), float(timestep)))
                return inner(rhs, t, y, constants, timestep)
            integ.adaptive_richardson = rec
        else:
            inner = integ.step

            def rec(rhs, initial_time, initial_state, constants, timestep):
                self.attempts.append((float(initial_time), float(timestep)))
                return inner(rhs, initial_time, initial_state, constants, timestep)
            integ.step = rec

    def groups(self):
        out = []
        for t, h in self.attempts:
            if out and out[-1][0] == t:
                out[-1][1].append(h)
            else:
                out.append((t, [h]))
        return out


def _exact(f, case, y0, t):
    if case["prob"]["kind"] == "lin":
        return f.exact(t, case["t0"], y0)
    return np.asarray(f.exact(t, np.longdouble), dtype=np.float64)


def _amp(f, case, T):
    if case["prob"]["kind"] == "lin":
        return f.amplification(T)
    return float(math.exp(min(f.lipschitz() * abs(T), 3.0)))


def _run_accuracy(case, record=True):
    if case.get("tol_route") == "setters":
        # the tolerances reach the system through its rtol / atol properties, after the method was selected
        a, f, y0 = traj.make_system(dict(case, rtol=1e-3, atol=1e-3))
        a.rtol = case["rtol"]
        a.atol = case["atol"]
    else:
        a, f, y0 = traj.make_system(case)
    rec = Recorder(a.integrator) if record else None
    err = traj.run_integrate(a, step_limit=4000)
    return a, f, y0, rec, err


def _errors(a, f, case, y0):
    t = np.asarray(a.t, dtype=np.float64)
    y = np.asarray(a.y, dtype=np.float64)
    idx = range(len(t)) if len(t) <= 400 else sorted(set(list(range(0, len(t), len(t) // 200)) + [len(t) - 1]))
    worst, ymax = 0.0, float(np.max(np.abs(y)))
    for k in idx:
        ex = _exact(f, case, y0, t[k])
        worst = max(worst, float(np.max(np.abs(y[k] - ex))))
    return worst, ymax


def _check_accuracy(case):
    import desolver as de
    method = case["method"]
    fam = M.family(M.get(method))
    implicit = M.is_implicit(method)
    attrs = dict(method=method, family=fam)
    labels = ["method:" + method, "prob:" + case["prob"]["kind"], "tolerances_via:" + case.get("tol_route", "constructor")] + traj.span_class(case["t0"], case["tf"])
    T = case["tf"] - case["t0"]
    if case["prob"]["kind"] != "lin":
        fchk = PR.build(case["prob"])
        if fchk.lipschitz() * abs(T) > 3.0:
            return [], dict(nontrivial=False, labels=labels + ["skipped:amplification_above_e3"])
    viols = []
    try:
        a, f, y0, rec, err = _run_accuracy(case)
    except Exception as e:
        if exc_origin(e)[0] == "harness":
            raise
        return [V("construction_raised", "{!r}".format(e), fam + exc_sig(e), **attrs)], dict(nontrivial=False, labels=labels)
    if isinstance(err, traj.StepCap):
        return [], dict(nontrivial=False, labels=labels + ["capped"])
    if err is not None:
        cause = err.__cause__
        if isinstance(cause, de.exception_types.FailedToMeetTolerances) and implicit:
            return [], dict(nontrivial=False, labels=labels + ["reported_failure"])
        viols.append(V("integrate_raised", "{} on a well-conditioned smooth problem (tol {:.1e}, span ({!r}, {!r}), dt {!r}) raised {!r} caused by {!r}".format(
            method, case["rtol"], case["t0"], case["tf"], case["dt"], err, cause), fam + exc_sig(err), hlam=None, **attrs))
        return viols, dict(nontrivial=False, labels=labels)
    N = len(a) - 1
    werr, ymax = _errors(a, f, case, y0)
    unit = case["atol"] + case["rtol"] * ymax
    amp = _amp(f, case, T)
    bound = KACC * unit * amp * math.sqrt(max(N, 1))
    steps = np.abs(np.diff(np.asarray(a.t, dtype=np.float64)))
    rate = f.lipschitz() + (f.max_freq() if hasattr(f, "max_freq") else 0.0)   # fastest scale of the problem
    hlam = float(np.max(steps) * rate) if N else 0.0
    metrics = {"err/bound": werr / bound}
    if not werr <= bound + 1e-13 * (1 + ymax) * max(N, 1):
        viols.append(V("accuracy", "{}: max error {:.3e} = {:.1f} x (atol + rtol max|y|) with tol {:.1e}, amplification {:.2f}, {} steps (allowed {:.1f} x); span ({!r}, {!r}), dt0 {!r}, max h|lambda| {:.2f}".format(
            method, werr, werr / unit, case["rtol"], amp, N, bound / unit, case["t0"], case["tf"], case["dt"], hlam), fam, hlam=hlam, **attrs))
    # ---- oracle 3: retries
    rejected = 0
    for t_start, hs in rec.groups():
        if len(hs) > 1:
            rejected += len(hs) - 1
        for h_prev, h_next in zip(hs, hs[1:]):
            same_sign = (h_prev > 0) == (h_next > 0) and h_next != 0
            # an implicit method also retries when its Newton solve did not converge (not a rejection by the controller):
            # there only "never beyond the step that was requested" is demanded
            smaller = abs(h_next) < abs(h_prev) if not implicit else abs(h_next) <= abs(hs[0])
            if not (same_sign and smaller):
                viols.append(V("retry_not_smaller", "{}: within one step from t={!r} the attempts were offered {} - a retry must have strictly smaller magnitude and the same sign".format(
                    method, t_start, hs), fam, **attrs))
                break
        if viols and viols[-1].sub == "retry_not_smaller":
            break
    # accepted dT equals the last attempt (tableau integrators)
    if not method.startswith("Rich"):
        tt = np.asarray(a.t, dtype=np.float64)
        for (t_start, hs), k in zip(rec.groups(), range(N)):
            if abs((tt[k + 1] - tt[k]) - hs[-1]) > 8 * np.finfo(np.float64).eps * max(1.0, abs(tt[k]), abs(tt[k + 1])):
                viols.append(V("accepted_step_not_last_attempt", "{}: step {} advanced by {!r} but the last attempt was offered {!r} (attempts {})".format(
                    method, k, float(tt[k + 1] - tt[k]), hs[-1], hs), fam, **attrs))
                break
    if rejected:
        labels.append("rejected_steps")
    # ---- oracle 2: tolerance / 100
    if case["rtol"] / 100 >= _min_tol(method) / 10 and not viols:
        c2 = dict(case, rtol=case["rtol"] / 100, atol=case["atol"] / 100)
        a2, f2, y02, _, err2 = _run_accuracy(c2, record=False)
        if err2 is None:
            N2 = len(a2) - 1
            werr2, ymax2 = _errors(a2, f2, c2, y02)
            unit2 = c2["atol"] + c2["rtol"] * ymax2
            bound2 = KACC * unit2 * amp * math.sqrt(max(N2, 1))
            metrics["err/bound"] = max(metrics["err/bound"], werr2 / bound2)
            hlam2 = float(np.max(np.abs(np.diff(np.asarray(a2.t, dtype=np.float64)))) * rate) if N2 else 0.0
            floor = 1e-13 * (1 + ymax2) * max(N2, 1)
            if not werr2 <= bound2 + floor:
                viols.append(V("accuracy", "{}: at tol/100 = {:.1e} max error {:.3e} = {:.1f} x (atol + rtol max|y|), {} steps (allowed {:.1f} x)".format(
                    method, c2["rtol"], werr2, werr2 / unit2, N2, bound2 / unit2), fam, hlam=hlam2, **attrs))
            elif werr2 > 10 * werr + floor and werr > floor and werr2 > unit2:
                # (only when the tighter run is also above its own tolerance level: a loose run can be accurate by luck -
                #  RadauIIA5, 7e-9 at tol 1e-3 - and then the comparison says nothing)
                viols.append(V("tolerance_not_proportional", "{}: tightening the tolerance by 100 made the error 10x worse: {:.3e} -> {:.3e} (steps {} -> {})".format(
                    method, werr, werr2, N, N2), fam, hlam=hlam2, **attrs))
            labels.append("tol/100_run")
        elif isinstance(err2, traj.StepCap):
            labels.append("tol/100_capped")
    # ---- oracle 4: the target a sliver away from a natural step end (the states recorded there obey oracle 1 as well)
    if case.get("snap") is not None and N >= 3 and not viols:
        tt = np.asarray(a.t, dtype=np.float64)
        k = N // 2
        tf3 = float(tt[k + 1] + case["snap"] * (tt[k + 1] - tt[k]))
        if tf3 != case["t0"] and (tf3 - case["t0"]) * T > 0:
            c3 = dict(case, tf=tf3)
            a3, f3, y03, _, err3 = _run_accuracy(c3, record=False)
            labels.append("snap_run")
            if err3 is None:
                N3 = len(a3) - 1
                werr3, ymax3 = _errors(a3, f3, c3, y03)
                unit3 = c3["atol"] + c3["rtol"] * ymax3
                bound3 = KACC * unit3 * amp * math.sqrt(max(N3, 1))
                metrics["err/bound"] = max(metrics["err/bound"], werr3 / bound3)
                t3 = np.asarray(a3.t, dtype=np.float64)
                if not werr3 <= bound3 + 1e-13 * (1 + ymax3) * max(N3, 1):
                    viols.append(V("accuracy", "{}: with the target {:.1e} of a step beyond the natural step end {!r} (tf = {!r}, tol {:.1e}) max error {:.3e} = {:.1f} x (atol + rtol max|y|), {} steps (allowed {:.1f} x; the run to {!r} had {:.1f} x)".format(
                        method, case["snap"], float(tt[k + 1]), tf3, case["rtol"], werr3, werr3 / unit3, N3, bound3 / unit3, case["tf"], werr / unit), fam, hlam=hlam, snap=True, **attrs))
                elif abs(t3[-1] - tf3) > 64 * np.finfo(np.float64).eps * max(1.0, abs(tf3), abs(case["t0"])):      # (C03's end-time tolerance)
                    viols.append(V("target_missed", "{}: target {!r} (a sliver past a natural step end) but the grid ends at {!r}".format(method, tf3, float(t3[-1])), fam, snap=True, **attrs))
            elif not isinstance(err3, traj.StepCap) and not (implicit and isinstance(err3.__cause__, de.exception_types.FailedToMeetTolerances)):
                viols.append(V("integrate_raised", "{}: target a sliver ({:.1e} of a step) past a natural step end: raised {!r} caused by {!r}".format(method, case["snap"], err3, err3.__cause__), fam + exc_sig(err3), hlam=None, snap=True, **attrs))
    backward = case["tf"] < case["t0"]
    nontrivial = bool(rejected or backward or abs(case["dt"]) > abs(T))
    return viols, dict(nontrivial=nontrivial, labels=labels, metrics=metrics, counts=dict(recorded_steps=N, rejected_attempts=rejected))


def _check_blowup(case):
    import desolver as de
    method = case["method"]
    fam = M.family(M.get(method))
    attrs = dict(method=method, family=fam)
    labels = ["blowup:" + case["which"], "method:" + method]
    if case["which"] == "pole":
        rhs = lambda t, y, **kw: y * y
        exact = lambda t: 1.0 / (1.0 - t)
    else:
        rhs = lambda t, y, **kw: -0.5 * y
        exact = lambda t: math.exp(-0.5 * (t - case["t0"]))
    a = de.OdeSystem(rhs, y0=np.array(case["y0"], dtype=np.float64), t=(case["t0"], case["tf"]), dt=case["dt"], rtol=case["rtol"], atol=case["rtol"])
    a.method = M.get(method)
    import warnings
    with warnings.catch_warnings():
        warnings.simplefilter("ignore")
        with np.errstate(all="ignore"):
            err = traj.run_integrate(a, step_limit=3000)
    viols = []
    if isinstance(err, traj.StepCap):
        return [], dict(nontrivial=True, labels=labels + ["capped"])
    t = np.asarray(a.t, dtype=np.float64)
    y = np.asarray(a.y, dtype=np.float64)[:, 0]
    if err is not None:
        cause = err.__cause__
        labels.append("raised:" + type(cause).__name__)
        # (RecursionError is the failure the docstring of integrate() names for an adaptive integrator - the Richardson wrappers
        #  retry by recursion - that cannot converge)
        if not isinstance(cause, (de.exception_types.FailedToMeetTolerances, OverflowError, FloatingPointError, ValueError, RecursionError)):
            viols.append(V("blowup_wrong_error", "{}: failure reported through {!r} instead of FailedToMeetTolerances".format(method, cause), fam + exc_sig(err), **attrs))
    if case["which"] == "pole":
        if np.any(t >= 1.0):
            k = int(np.argmax(t >= 1.0))
            if err is None:
                viols.append(V("stepped_over_singularity_silently", "{}: y' = y^2, y(0) = 1 (pole at t = 1): the run returned normally with state {!r} recorded at t = {!r}".format(
                    method, float(y[k]), float(t[k])), fam, **attrs))
            else:
                viols.append(V("state_beyond_singularity_before_failure", "{}: y' = y^2, y(0) = 1 (pole at t = 1): state {!r} was recorded at t = {!r} before the failure was raised".format(
                    method, float(y[k]), float(t[k])), fam, **attrs))
        else:
            # judged only where the problem's own error amplification (y(t)/y(0))^2 is moderate (t <= 0.9, y <= 10)
            keep = t <= 0.9
            t, y = t[keep], y[keep]
            ex = np.array([exact(tt) for tt in t])
            rel = np.abs(y - ex) / (case["rtol"] * (1 + np.abs(ex)) * ex ** 2)
            if np.any(rel > KACC * math.sqrt(len(t))):
                k = int(np.argmax(rel))
                # the first attempt of the run reaches across the pole when t0 + |dt| >= 1 (its increment is garbage)
                viols.append(V("inaccurate_state_recorded", "{}: near the pole state {!r} was recorded at t={!r} (exact {!r}), error {:.1f} x tolerance; initial dt {!r}".format(
                    method, float(y[k]), float(t[k]), float(ex[k]), float(rel[k]), case["dt"]), fam, first_attempt_crosses_pole=bool(case["t0"] + abs(case["dt"]) >= 1.0), **attrs))
    else:
        if err is None:
            ex = np.array([exact(tt) for tt in t])
            if np.max(np.abs(y - ex)) > 1e-13 * len(t):
                viols.append(V("impossible_tolerance_accepted", "{}: tolerance {:.0e} cannot be met in double precision, yet the run returned normally with error {:.3e}".format(
                    method, case["rtol"], float(np.max(np.abs(y - ex)))), fam, **attrs))
    return viols, dict(nontrivial=True, labels=labels)


def _check_scaling(case):
    """Metamorphic relation: for a LINEAR problem, scaling the initial state and atol by c = 2^k (rtol unchanged)
    scales every quantity the controller compares exactly, so the time grid must be bit-identical and the states
    exactly c times the unscaled ones. Any absolute constant in the error scale (a floor, swapped tolerances, an
    absolute step limit) breaks it."""
    import desolver as de
    method = case["method"]
    fam = M.family(M.get(method))
    attrs = dict(method=method, family=fam)
    labels = ["scaling:" + method, "k={}".format(case["k"])]
    c = 2.0 ** case["k"]
    runs = []
    for scale in (1.0, c):
        cc = dict(case, y0=[v * scale for v in case["y0"]], atol=case["atol"] * scale)
        a, f, y0 = traj.make_system(cc)
        err = traj.run_integrate(a, step_limit=3000)
        if err is not None:
            if isinstance(err, traj.StepCap):
                return [], dict(nontrivial=False, labels=labels + ["capped"])
            return [V("integrate_raised", "{} raised {!r} caused by {!r} (state scale {})".format(method, err, err.__cause__, scale), fam + exc_sig(err), **attrs)], dict(nontrivial=False, labels=labels)
        runs.append((np.asarray(a.t, dtype=np.float64).copy(), np.asarray(a.y, dtype=np.float64).copy()))
    (t1, y1), (t2, y2) = runs
    viols = []
    if len(t1) != len(t2) or not np.array_equal(t1, t2):
        k = int(np.argmax(t1[:min(len(t1), len(t2))] != t2[:min(len(t1), len(t2))])) if len(t1) and len(t2) else 0
        viols.append(V("scale_invariance_grid", "{}: y' = A y with (y0, atol) scaled by 2^{} (rtol = {:.0e}, atol = {:.1e}): the step sequence changes ({} vs {} steps; first difference at sample {}: {!r} vs {!r}) - the error test is not homogeneous in (y, atol)".format(
            method, case["k"], case["rtol"], case["atol"], len(t1) - 1, len(t2) - 1, k, float(t1[k]) if k < len(t1) else None, float(t2[k]) if k < len(t2) else None), fam, **attrs))
    elif not np.array_equal(y1 * c, y2):
        viols.append(V("scale_invariance_state", "{}: states of the run scaled by 2^{} are not exactly the scaled states (max relative difference {:.3e})".format(
            method, case["k"], float(np.max(np.abs(y1 * c - y2)) / (np.max(np.abs(y2)) + 1e-300))), fam, **attrs))
    return viols, dict(nontrivial=bool(len(t1) > 3), labels=labels, counts=dict(recorded_steps=len(t1) - 1))


def _check_sharp(case):
    import desolver as de
    method = case["method"]
    fam = M.family(M.get(method))
    implicit = M.is_implicit(method)
    attrs = dict(method=method, family=fam)
    labels = ["sharp:" + method, "backward" if case["sign"] < 0 else "forward"]
    K, Mx = case["K"], case["M"]
    # forward: strongly attracted to y = 0 (stiff); backward: the same field integrated in reverse time
    def rhs(t, y, **kw):
        return -K * np.tanh(Mx * y) + np.cos(3 * t)
    t0, tf = case["t0"], case["t0"] + case["sign"] * case["L"]
    a = de.OdeSystem(rhs, y0=np.array([case["y0"]], dtype=np.float64), t=(t0, tf), dt=case["dt"], rtol=case["rtol"], atol=case["rtol"])
    a.method = M.get(method)
    rec = Recorder(a.integrator)
    err = traj.run_integrate(a, step_limit=300)
    viols = []
    retries = 0
    newton_retries = 0
    for t_start, hs in rec.groups():
        retries += len(hs) - 1
        if implicit and len(hs) >= 3:
            newton_retries += 1
        for h_prev, h_next in zip(hs, hs[1:]):
            same_sign = (h_prev > 0) == (h_next > 0) and h_next != 0
            smaller = abs(h_next) < abs(h_prev) if not implicit else abs(h_next) <= abs(hs[0])
            if not (same_sign and smaller):
                viols.append(V("retry_not_smaller", "{}: within one step from t={!r} the attempts were offered {} - a retry must {} and keep the sign (y' = -{} tanh({} y) + cos 3t)".format(
                    method, t_start, hs[:8], "never exceed the step first requested" if implicit else "have strictly smaller magnitude", K, Mx), fam, **attrs))
                break
        if viols:
            break
    if err is None and not viols:
        viols += traj.trajectory_invariants(a, t0, np.array([case["y0"]]), [(0, len(a) - 1, tf, case["sign"])], np.float64, attrs)
    elif err is not None and not isinstance(err, traj.StepCap) and not isinstance(err.__cause__, de.exception_types.FailedToMeetTolerances):
        viols.append(V("integrate_raised", "{}: y' = -{} tanh({} y) + cos 3t raised {!r} caused by {!r}".format(method, K, Mx, err, err.__cause__), fam + exc_sig(err), hlam=None, **attrs))
    if err is not None:
        labels.append("capped" if isinstance(err, traj.StepCap) else "reported_failure")
    if retries >= 3:
        labels.append("three_or_more_retries")
    if newton_retries:
        labels.append("implicit_step_retried_twice_or_more")
    return viols, dict(nontrivial=retries >= 2, labels=labels, counts=dict(rejected_attempts=retries))


def _check_half(case):
    import desolver as de
    method = case["method"]
    lam, t0, L, tol = case["lam"], case["t0"], case["L"], case["tol"]
    y0 = np.asarray(case["y0"], dtype=np.float16)
    attrs = dict(method=method, dtype="float16")
    labels = ["method:" + method, "first_step/span:{}".format(case["dtf"]), "backward" if L < 0 else "forward", "growing" if lam * L > 0 else "decaying"]
    a = de.OdeSystem(lambda t, y, **kw: lam * y, y0=y0.copy(), t=(t0, t0 + L), dt=abs(L) * case["dtf"], rtol=tol, atol=tol)
    a.method = M.get(method)
    with warnings.catch_warnings():
        warnings.simplefilter("ignore")
        with np.errstate(all="ignore"):
            err = traj.run_integrate(a, step_limit=2000)
    if isinstance(err, traj.StepCap):
        return [], dict(nontrivial=False, labels=labels + ["capped"])
    if err is not None:
        if exc_origin(err)[0] == "harness":
            raise err
        return [], dict(nontrivial=False, labels=labels + ["reported_failure:" + type(err.__cause__).__name__])
    t = np.asarray(a.t, dtype=np.float64)
    y = np.asarray(a.y, dtype=np.float64)
    ex = np.asarray(case["y0"], dtype=np.float64)[None, :] * np.exp(lam * (t - t0))[:, None]
    amp = max(1.0, math.exp(lam * L))
    eps16 = float(np.finfo(np.float16).eps)
    # 60 x the tolerance-level error times the problem's amplification, plus the rounding of the recorded steps themselves
    allowed = 60.0 * (tol + tol * np.abs(ex)) * amp + len(t) * eps16 * np.max(np.abs(ex))
    ratio = np.abs(y - ex) / allowed
    viols = []
    if not np.all(ratio <= 1.0):
        k = int(np.argmax(np.nan_to_num(ratio, nan=np.inf).max(axis=1)))
        viols.append(V("inaccurate_state_recorded", "{} (float16): y' = {} y over ({}, {}) with first step {} x span, rtol = atol = {}: returned normally with state {} at t = {!r} for an exact {} ({:.3g} x the allowed error; {} samples)".format(
            method, lam, t0, t0 + L, case["dtf"], tol, y[k].tolist(), float(t[k]), ex[k].tolist(), float(np.nanmax(ratio[k])), len(t)), "embedded_half", **attrs))
    return viols, dict(nontrivial=case["dtf"] >= 1.0, labels=labels)


def _check_tol_setters(case):
    import desolver as de
    method = case["method"]
    fam = M.family(M.get(method))
    attrs = dict(method=method, family=fam)
    labels = ["method:" + method, "state_scale:" + ("1e4" if abs(case["y0"][0]) > 1 else "1e-5")]
    errs = {}
    for route in ("constructor", "setters"):
        if route == "constructor":
            a, f, y0 = traj.make_system(case)
        else:
            a, f, y0 = traj.make_system(dict(case, rtol=1e-3, atol=1e-3))
            if case["order"] == "rtol_first":
                a.rtol = case["rtol"]; a.atol = case["atol"]
            else:
                a.atol = case["atol"]; a.rtol = case["rtol"]
        err = traj.run_integrate(a, step_limit=4000)
        if isinstance(err, traj.StepCap):
            return [], dict(nontrivial=False, labels=labels + ["capped"])
        if err is not None:
            if exc_origin(err)[0] == "harness":
                raise err
            return [], dict(nontrivial=False, labels=labels + ["reported_failure"])
        werr, ymax = _errors(a, f, case, y0)
        errs[route] = (werr, ymax, len(a))
    unit = case["atol"] + case["rtol"] * errs["setters"][1]
    amp = _amp(f, case, case["tf"] - case["t0"])
    e_c, e_s = errs["constructor"][0], errs["setters"][0]
    viols = []
    # both runs are controlled at the same tolerances: the run that received them through the properties may not be far less
    # accurate than the one that received them at construction AND beyond the tolerance-level error itself
    if e_s > 50.0 * e_c and e_s > 5.0 * unit * amp:
        viols.append(V("tolerances_assigned_not_honoured", "{}: rtol = {:.1e}, atol = {:.1e} assigned through system.rtol / system.atol ({}): max error {:.3e} = {:.1f} x (atol + rtol max|y|) in {} steps; the same tolerances given to the constructor: {:.3e} in {} steps".format(
            method, case["rtol"], case["atol"], case["order"], e_s, e_s / unit, errs["setters"][2], e_c, errs["constructor"][2]), fam, **attrs))
    return viols, dict(nontrivial=True, labels=labels, metrics={"err_setters/err_constructor": e_s / max(e_c, 1e-300)})


def check(case):
    if case["part"] == "tol_setters":
        return _check_tol_setters(case)
    if case["part"] == "half":
        return _check_half(case)
    if case["part"] == "sharp":
        return _check_sharp(case)
    if case["part"] == "scaling":
        return _check_scaling(case)
    return _check_accuracy(case) if case["part"] == "accuracy" else _check_blowup(case)
