"""C09 - a terminal event stops the integration exactly at the event.

Case = (method, exactly solvable problem, span in either direction - finite, or an infinite target of the right sign -,
dt, tolerance, dense on/off, 1..5 events of which the first is terminal (others terminal or not), 0..2 continuation
calls after the stop). True crossings are located by the harness on the closed-form trajectory.
Oracles after the stop (when a terminal crossing exists along the exact trajectory before the target):
  status "terminated upon finding a triggered event" and success;  the last recorded time equals the time of the last
  (terminal) record to 64 eps max(1, |t|) (the landing loop's own exit test is 32 eps);  no recorded time beyond it;  the last state is on the event surface
  (|g(t_N, y_N)| <= slope x location bound + L_g x measured error);  exactly one record of a terminal event, it is the
  last one, it lies at a true crossing of that event (location bound of C07), and no terminal event changes sign over an
  earlier examined step (earliest resolvable terminal crossing);  every strict sign change of a non-terminal event over a recorded step is reported (C08 oracle);
  C03 invariants;  with dense output on: C06 oracles 1, 2, 4 on the stopped system.
After 0..2 continuation calls (integrate() / integrate(t), without events): target reached, C03 invariants over all
segments, dense output still consistent over the whole trajectory.
"""
import math

import numpy as np
from hypothesis import strategies as st

from pbt import events as EV
from pbt import evrun
from pbt import methods as M
from pbt import traj
from pbt.core import V, Part, exc_sig, exc_origin

ID = "C09"
LEVEL = "exploration"
RULE = ("Hypothesis-generated (method, exactly solvable problem, span or infinite target, dt, tolerance, dense, events with >= 1 "
        "terminal, continuation calls). Distinct = SHA-1 of the case JSON. Non-trivial = the run stopped on a terminal event and "
        "(a non-terminal event was recorded before it, or backward, or a continuation followed).")
ASSUMPTIONS = ["true crossings located by the harness on the closed-form trajectory; location bound as in C07 (measured grid error based)",
               "runs whose grid error exceeds 1e-2 of the solution scale are not judged for location (step far outside the accuracy regime)"]


@st.composite
def _case(draw):
    c = draw(evrun.event_case("terminal", terminal_mode="mixed", max_events=5))
    c["events"][0]["terminal"] = True
    for e in c["events"]:
        # two crossings of one function inside a single step are not resolvable by sign changes (the premise of C08):
        # terminal events are single-crossing families here; products of time factors stay as non-terminal events
        if e["h"] == "timeprod":
            e["terminal"] = False
    if not any(e["terminal"] for e in c["events"]):
        c["events"][0] = dict(h="time", s=c["events"][0]["s"], c=c["t0"] + 0.5 * (c["tf"] - c["t0"]), direction=0, terminal=True)
    c["infinite"] = draw(st.integers(0, 4)) == 0
    nc = draw(st.sampled_from([0, 0, 1, 2]))
    c["cont"] = [draw(st.sampled_from([["integrate"], ["integrate_to", 0.5], ["integrate_to", 1.25], ["integrate_to", -0.25]])) for _ in range(nc)]
    return c


@st.composite
def _const_level(draw):
    """y' = rate with a terminal event y[0] - level * constants['lvl']; a callback REPLACES the constants dict after a few steps
    (system.constants = {...}), moving the level: the run has to stop where the level in force is reached"""
    method = draw(st.sampled_from(["RK4Solver", "RK45CKSolver", "RK8713MSolver", "EulerSolver", "ImplicitMidpoint", "RadauIIA5", "HeunEulerSolver", "Rich2:RK4Solver"]))
    t0 = draw(st.sampled_from([0.0, -4.0, 10.0]))
    sgn = draw(st.sampled_from([1.0, 1.0, -1.0]))
    return dict(part="const_level", method=method, t0=t0, sgn=sgn, L=draw(st.sampled_from([4.0, 8.0])), dt=draw(st.sampled_from([0.125, 0.25, 0.3])),
                rate=draw(st.sampled_from([1.0, 0.5, 2.0])), level=draw(st.sampled_from([1.0, 1.5, 2.5])), lvl2=draw(st.sampled_from([1.5, 2.0, 0.6, 0.8])),
                change_after=draw(st.integers(1, 4)), how=draw(st.sampled_from(["replace", "replace", "in_place"])), infinite=draw(st.booleans()), dense=draw(st.booleans()))


def parts(tier):
    q = tier == "quick"
    return [Part("terminal", strategy=_case(), examples=600 if q else 12000, timeout=300),
            Part("const_level", strategy=_const_level(), examples=200 if q else 4000, timeout=300)]


def _check_const_level(case):
    import desolver as de
    method = case["method"]
    fam = M.family(M.get(method))
    attrs = dict(method=method, family=fam, dense=bool(case["dense"]))
    t0, sgn, rate = case["t0"], case["sgn"], case["rate"]
    tf = t0 + sgn * case["L"]

    def rhs(t, y, **kw):
        return np.array([sgn * rate])          # y grows at `rate` per unit of integration time, in either direction

    def ev(t, y, lvl=1.0, **kw):
        return y[0] - case["level"] * lvl
    ev.is_terminal = True
    a = de.OdeSystem(rhs, y0=np.array([0.0]), t=(t0, tf), dense_output=case["dense"], dt=case["dt"], rtol=1e-8, atol=1e-8, constants=dict(lvl=1.0))
    a.method = M.get(method)
    state = dict(n=0, t_change=None)

    def cb(system):
        state["n"] += 1
        if state["n"] == case["change_after"]:
            if case["how"] == "replace":
                system.constants = dict(lvl=case["lvl2"])
            else:
                system.constants["lvl"] = case["lvl2"]
            state["t_change"] = float(system.t[-1])
    err = traj.run_integrate(a, np.float64(sgn * np.inf) if case["infinite"] else None, step_limit=400, events=[ev], callbacks=[cb])
    labels = ["const_level:" + case["how"], "target:inf" if case["infinite"] else "target:finite"]
    if err is not None and not isinstance(err, traj.StepCap):
        return [V("integrate_raised", "{}: raised {!r} caused by {!r}".format(method, err, err.__cause__), fam + exc_sig(err), **attrs)], dict(nontrivial=False, labels=labels)
    capped = isinstance(err, traj.StepCap)
    y_end, t_end = float(a.y[-1][0]), float(a.t[-1])
    elapsed_change = abs(state["t_change"] - t0) if state["t_change"] is not None else None
    # y(t) = rate * |t - t0|; level in force: `level` before the change, level * lvl2 after it
    reach1 = case["level"] / rate                      # elapsed time at which the first level is reached
    lv2 = case["level"] * case["lvl2"]
    if elapsed_change is None or reach1 < elapsed_change - 1e-9:
        want, which = reach1, 1.0                      # crossed before (or without) the change
    elif abs(reach1 - elapsed_change) <= 1e-9:
        return [], dict(nontrivial=False, labels=labels + ["level_touched_at_the_change"])      # g = 0 exactly when the level moves: no crossing either way
    elif lv2 / rate > elapsed_change + 1e-9:
        want, which = lv2 / rate, case["lvl2"]
    else:
        return [], dict(nontrivial=False, labels=labels + ["level_jumped_below_state"])       # g changes sign through the jump of the level, not along the run
    horizon = case["L"] if not case["infinite"] else float("inf")
    stopped = "terminated upon finding a triggered event" in a.integration_status
    viols = []
    if abs(want - horizon) <= 1e-9:
        return [], dict(nontrivial=False, labels=labels + ["level_touched_at_the_end_of_the_span"])     # g = 0 at tf: no strict sign change inside the run
    if want > horizon + 1e-9:
        if stopped:
            viols.append(V("spurious_terminal", "{}: stopped at elapsed {!r} although the level in force is only reached at {!r}, beyond the span".format(method, abs(t_end - t0), want), fam, **attrs))
        return viols, dict(nontrivial=False, labels=labels + ["level_beyond_span"])
    if capped or not stopped:
        viols.append(V("terminal_event_not_honoured", "{}: the run {} although the level in force ({} x {}) is reached at elapsed {!r} (constants {} by a callback after {} steps, at elapsed {!r})".format(
            method, "never stopped (cut by the harness after 400 steps)" if capped else "went on to t = {!r} (status {!r})".format(t_end, a.integration_status),
            case["level"], which, want, case["how"] + "d", case["change_after"], elapsed_change), fam, **attrs))
    elif abs(abs(t_end - t0) - want) > 1e-7 * max(1.0, want):
        viols.append(V("terminal_location", "{}: stopped at elapsed {!r} with y = {!r}; the level in force ({} x {}) is reached at elapsed {!r} (constants {} by a callback at elapsed {!r})".format(
            method, abs(t_end - t0), y_end, case["level"], which, want, case["how"] + "d", elapsed_change), fam, **attrs))
    return viols, dict(nontrivial=bool(elapsed_change is not None and which != 1.0), labels=labels)

def check(case):
    if case["part"] == "const_level":
        return _check_const_level(case)
    import desolver as de
    method = case["method"]
    fam = M.family(M.get(method))
    rich = False     # (since fix 3f44fc1 Richardson wrappers provide one Hermite piece per step and are judged like every other method)
    attrs = dict(method=method, family=fam, dense=bool(case["dense"]))
    t0, tf = case["t0"], case["tf"]
    backward = tf < t0
    sgn = -1.0 if backward else 1.0
    eps = float(np.finfo(np.float64).eps)
    labels = ["family:" + fam, "dense:on" if case["dense"] else "dense:off", "backward" if backward else "forward",
              "target:inf" if case["infinite"] else "target:finite", "cont:{}".format(len(case["cont"]))]
    sig = "{}:{}".format(fam, "dense" if case["dense"] else "nodense")
    P0 = EV.ExactProblem(case["prob"], t0)
    evs0 = [EV.Event(p) for p in case["events"]]
    for ev in evs0:
        gmax = max(abs(ev.g_exact(P0, tt)) for tt in np.linspace(t0, tf, 200))
        if gmax <= 1e-9 * abs(ev.s) * ev.natural_scale(P0):
            return [], dict(nontrivial=False, labels=labels + ["skipped:degenerate_event_function"])   # g vanishes identically along the trajectory
    # earliest true terminal crossing along the direction of integration, within the finite span
    term_cross = []
    for j, ev in enumerate(evs0):
        if not ev.is_terminal:
            continue
        for (tr, s_tau, slope) in EV.true_crossings(ev, P0, t0, tf):
            if ev.direction == 0 or ev.direction == s_tau:
                term_cross.append((sgn * tr, tr, j, slope))
    term_cross.sort()
    if case["infinite"] and not term_cross:
        return [], dict(nontrivial=False, labels=labels + ["skipped:no_terminal_crossing_for_infinite_target"])
    target = None
    run_case = case
    if case["infinite"]:
        target = np.float64(sgn * np.inf)
    try:
        r = evrun.run(run_case, target=target)
    except Exception as e:
        if exc_origin(e)[0] == "harness":
            raise
        return [V("construction_raised", "{!r}".format(e), fam + exc_sig(e), **attrs)], dict(nontrivial=False, labels=labels)
    if isinstance(r.err, traj.StepCap):
        return [], dict(nontrivial=False, labels=labels + ["capped"])
    if r.err is not None:
        cause = r.err.__cause__
        if isinstance(cause, de.exception_types.FailedToMeetTolerances) and fam in ("implicit_fixed", "implicit_embedded", "richardson"):
            return [], dict(nontrivial=False, labels=labels + ["reported_failure"])
        return [V("integrate_raised", "{} with a terminal event{} raised {!r} caused by {!r}".format(method, " and an infinite target" if case["infinite"] else "", r.err, cause),
                  fam + exc_sig(r.err) + ("inf" if case["infinite"] else ""), **attrs)], dict(nontrivial=False, labels=labels)
    a, P = r.a, r.P
    t = np.asarray(a.t, dtype=np.float64)
    y = np.asarray(a.y, dtype=np.float64)
    N = len(t) - 1
    viols = []
    recs = list(a.events)
    term_recs = [rec for rec in recs if rec.event.is_terminal]
    grid_err = max(float(np.max(np.abs(y[k] - P.exact(t[k])))) for k in range(N + 1))
    hmax = float(np.max(np.abs(np.diff(t)))) if N else 0.0
    # the step the terminal event was located on is rolled back and not in the record: bound it by the largest
    # recorded / requested step times the controller's maximum growth factor (1 + pi/2)
    hmax = 2.6 * max(hmax, min(abs(case["dt"]), abs(tf - t0)))
    rate, scale = P.rate(), P.scale()
    incr_ref = 0.0
    if "terminated upon finding a triggered event" in a.integration_status and N >= 1:
        # ... and its end state is not in the record either: the same run without events, carried one (inflated) step past
        # the stop, contains that step - its grid error bounds the error of the interpolant the event was located on
        ref = de.OdeSystem(EV.ExactProblem(case["prob"], t0), y0=P.y0.copy(), t=(t0, tf), dense_output=False, dt=case["dt"], rtol=case["rtol"], atol=case["atol"])
        ref.method = M.get(method)
        beyond = float(t[-1]) + sgn * hmax
        if not case["infinite"] and sgn * (beyond - tf) > 0:
            beyond = tf
        if traj.run_integrate(ref, np.float64(beyond), step_limit=len(t) + 200) is None:
            tr_, yr_ = np.asarray(ref.t, dtype=np.float64), np.asarray(ref.y, dtype=np.float64)
            grid_err = max(grid_err, max(float(np.max(np.abs(yr_[k] - P.exact(tr_[k])))) for k in range(len(tr_))))
            incr_ref = max([float(np.max(np.abs((yr_[k + 1] - yr_[k]) - (P.exact(tr_[k + 1]) - P.exact(tr_[k]))))) / abs(tr_[k + 1] - tr_[k]) for k in range(len(tr_) - 1)] + [0.0])
    herm = 8 * hmax ** 4 / 384.0 * rate ** 4 * scale if P.kind != "const" else 0.0
    if rich:
        herm += 1000 * (case["atol"] + case["rtol"] * scale)
    yerr = 2 * grid_err + herm + 64 * eps * scale * max(1.0, abs(t0), abs(float(t[-1])))
    incr_err = max([float(np.max(np.abs((y[k + 1] - y[k]) - (P.exact(t[k + 1]) - P.exact(t[k]))))) / abs(t[k + 1] - t[k]) for k in range(N)] + [0.0])
    incr_err = max(incr_err, incr_ref)      # (the increment of the rolled-back step, for derivative-dependent events)
    accurate = grid_err <= 1e-2 * scale
    stopped = "terminated upon finding a triggered event" in a.integration_status
    if case["infinite"]:
        t_far = float(t[-1]) + sgn * (hmax + 1e-6)
        term_cross = []
        for j, ev in enumerate(r.evs):
            if not ev.is_terminal:
                continue
            for (tr, s_tau, slope) in EV.true_crossings(ev, P, t0, t_far, n=max(4000, int(40 * abs(t_far - t0) * max(rate, 1.0)))):
                if ev.direction == 0 or ev.direction == s_tau:
                    term_cross.append((sgn * tr, tr, j, slope))
        term_cross.sort()
    expected_stop = bool(term_cross) and accurate
    te_all = [float(rec.t) for rec in recs]
    if any(sgn * (b - a_) < 0 for a_, b in zip(te_all, te_all[1:])):
        viols.append(V("order", "{}: event records are not in the order met along the integration ({}): times {}".format(method, "backward" if backward else "forward", te_all[:8]), sig, **attrs))
    if stopped:
        labels.append("stopped_on_event")
        if not a.success:
            viols.append(V("status", "terminated by event but success is False", sig, **attrs))
        if len(term_recs) != 1 or recs[-1] is not term_recs[-1]:
            viols.append(V("terminal_record", "{}: {} records of terminal events, the last record is {}terminal (records at {})".format(
                method, len(term_recs), "" if recs and recs[-1].event.is_terminal else "not ", [float(x.t) for x in recs][-5:]), sig, **attrs))
        else:
            te = float(term_recs[0].t)
            ev = term_recs[0].event
            if abs(float(t[-1]) - te) > 64 * eps * max(1.0, abs(te)):     # the landing loop's own exit test is 32 eps
                viols.append(V("stop_time", "{}: stopped at t={!r} but the terminal event is at t={!r} (difference {:.3e}); last steps {}".format(
                    method, float(t[-1]), te, abs(float(t[-1]) - te), t[-4:].tolist()), sig, **attrs))
            if np.any(sgn * (t - te) > 8 * eps * max(1.0, abs(te))):
                viols.append(V("beyond_event", "{}: recorded times beyond the terminal event at {!r}: {}".format(method, te, t[sgn * (t - te) > 0].tolist()[:4]), sig, **attrs))
            if accurate:
                Lg = abs(ev.s) * (ev.grad_norm() if ev.kind in ("comp", "lin") else (rate if ev.kind == "deriv" else 0.0))
                derr = abs(ev.s) * (8 * hmax ** 3 / 125.0 * rate ** 4 * scale + 4 * incr_err) if ev.kind == "deriv" else 0.0
                truth = [c for c in term_cross if c[2] == evs_index(r.evs, ev)]
                if not term_cross:
                    viols.append(V("spurious_terminal", "{}: stopped at t={!r} on #{} but no terminal event crosses along the exact trajectory".format(method, te, evs_index(r.evs, ev)), sig, **attrs))
                else:
                    # location: the stop is at a true crossing of the stopping event (own bound, as in C07). Which crossing is
                    # the earliest *resolvable* one is decided on the recorded samples below (terminal_event_not_honoured):
                    # two crossings inside one step cancel and cannot be seen by any sign-change test.
                    mine_c = [c for c in term_cross if c[2] == evs_index(r.evs, ev)]
                    if not mine_c:
                        viols.append(V("spurious_terminal", "{}: stopped at t={!r} on #{} {} which has no (direction-compatible) crossing along the exact trajectory".format(method, te, evs_index(r.evs, ev), ev.p), sig, **attrs))
                    else:
                        key, t_near, j_near, slope = min(mine_c, key=lambda c: abs(c[1] - te))
                        allowed = 2 * (Lg * yerr + derr) / max(slope, 1e-300) + 64 * eps * max(1.0, abs(te), abs(t_near)) + 1e-9 * abs(tf - t0)
                        if not abs(te - t_near) <= allowed:
                            viols.append(V("terminal_location", "{}: stopped at t={!r} (event #{}) but its nearest true crossing is at {!r} (off by {:.3e}, allowed {:.3e}, grid error {:.2e})".format(
                                method, te, evs_index(r.evs, ev), t_near, abs(te - t_near), allowed, grid_err), sig, **attrs))
                    # last state on the event surface
                    dy = np.asarray(P(t[-1], y[-1]), dtype=np.float64) if ev.kind == "deriv" else None
                    gres = abs(ev.s * (ev.h(t[-1], y[-1], dy) - ev.c))
                    err_last = float(np.max(np.abs(y[-1] - P.exact(t[-1]))))
                    mine = [c for c in term_cross if c[2] == evs_index(r.evs, ev)]
                    sl = min(mine, key=lambda c: abs(c[1] - te))[3] if mine else slope
                    gbound = 2 * (Lg * (yerr + err_last) + derr) + sl * 64 * eps * max(1.0, abs(te)) + 1e-7 * abs(ev.s) * ev.natural_scale(P)
                    if not gres <= gbound:
                        viols.append(V("not_on_event_surface", "{}: after the stop |g(t_N, y_N)| = {:.3e} for the terminal event #{} {} (allowed {:.3e}; step sizes {})".format(
                            method, gres, evs_index(r.evs, ev), ev.p, gbound, np.abs(np.diff(t[-4:])).tolist()), sig, **attrs))
    # steps recorded by the landing re-integration (after the last callback snapshot but one) were never examined for events
    n_examined = N
    if stopped and len(r.snaps) >= 2:
        n_examined = r.snaps[-2][0] - 1
    elif stopped:
        n_examined = 0
    # C08 oracle for the events on the steps that were examined: a terminal event changing sign over such a step must have
    # stopped the run there; a non-terminal one must be reported
    if not viols:
        byfun = {}
        for rec in recs:
            byfun.setdefault(id(rec.event), []).append(float(rec.t))
        for j, ev in enumerate(r.evs):
            g = evrun.g_on_samples(ev, P, t, y)
            for k in range(min(N, n_examined)):
                if g[k] * g[k + 1] < 0:
                    up = g[k] < 0
                    if (ev.direction > 0 and not up) or (ev.direction < 0 and up):
                        continue
                    lo, hi = min(t[k], t[k + 1]), max(t[k], t[k + 1])
                    if ev.is_terminal:
                        viols.append(V("terminal_event_not_honoured", "{}: terminal event #{} {} changes sign over the recorded step [{!r}, {!r}] (step {} of {}) but the run went on (status {!r})".format(
                            method, j, ev.p, float(t[k]), float(t[k + 1]), k, N, a.integration_status), sig, **attrs))
                        break
                    if not any(lo <= x <= hi for x in byfun.get(id(ev), [])):
                        viols.append(V("missed_crossing_before_stop", "{}: non-terminal event #{} {} changes sign over the recorded step [{!r}, {!r}] (step {} of {}) but is not reported".format(
                            method, j, ev.p, float(t[k]), float(t[k + 1]), k, N), sig, **attrs))
                        break
            if viols:
                break
    # C03 invariants / C06 consistency on the stopped system
    segs = [(0, N, float(t[-1]), sgn)]
    if not viols:
        viols += traj.trajectory_invariants(a, t0, P.y0, segs, np.float64, attrs, check_status=False)
    if not viols and case["dense"]:
        viols += traj.dense_consistency(a, P, fam, attrs, what="after the stop" if stopped else "")
    # continuation
    n_cont = 0
    if not viols and stopped:
        for op in case["cont"]:
            cur = float(a.t[-1])
            if op[0] == "integrate":
                if case["infinite"]:
                    continue
                tgt = float(tf)
                arg = None if not case.get("against") else np.float64(tgt)      # (declared over the mirrored span: every call names its target)
            else:
                tgt = float(t0 + op[1] * (tf - t0))
                arg = np.float64(tgt)
            if abs(tgt - cur) <= 64 * eps * max(1.0, abs(cur), abs(tgt)):
                continue
            n_before = len(a)
            err = traj.run_integrate(a, arg, step_limit=n_before + 1500)
            if isinstance(err, traj.StepCap):
                labels.append("capped")
                break
            if err is not None:
                cause = err.__cause__
                if isinstance(cause, de.exception_types.FailedToMeetTolerances) and fam in ("implicit_fixed", "implicit_embedded", "richardson"):
                    labels.append("reported_failure")
                    break
                viols.append(V("continuation_raised", "{}: integrate({}) after the terminal stop raised {!r} caused by {!r}".format(method, "" if arg is None else tgt, err, cause), fam + exc_sig(err), **attrs))
                break
            n_cont += 1
            segs.append((n_before - 1, len(a) - 1, tgt, 1.0 if tgt > cur else -1.0))
            # (the continuation monitors no event and reached its target: the status is that of this call, not of the terminal stop)
            viols += traj.trajectory_invariants(a, t0, P.y0, segs, np.float64, attrs, check_status=True)
            if not viols and case["dense"] and all(s[3] == segs[0][3] for s in segs):
                viols += traj.dense_consistency(a, P, fam, attrs, what="after continuing past the terminal event")
            if viols:
                break
    if n_cont:
        labels.append("continued")
    before = [rec for rec in recs if not rec.event.is_terminal]
    nontrivial = bool(stopped and (before or backward or n_cont))
    return viols, dict(nontrivial=nontrivial, labels=labels, counts=dict(recorded_events=len(recs)))


def evs_index(evs, ev):
    for i, e in enumerate(evs):
        if e is ev:
            return i
    return -1
