"""C12 - a failure leaves a consistent, resumable prefix of the trajectory.   (level: fault enumeration)

A configuration (method family x direction x {callbacks, events, dense output} x rhs program, 3..12 steps) is drawn by
Hypothesis. A fault-free reference run numbers EVERY call of the user's rhs, Jacobian, callbacks and event functions
(E calls) and records, inside each call, how many samples were committed at that moment. Then for every k in 1..E
(all of them; in the quick tier at most 160 per configuration, evenly spread and always including the first and last
ten) the run is repeated with a one-shot fault at call k, drawn from {custom Exception subclass, RuntimeError,
ZeroDivisionError, KeyboardInterrupt, a FailedIntegration raised by user code with a cause of its own}
(ValueError / LinAlgError are the integrators' internal retry protocol).
Oracle per crash point:
  the call raises FailedIntegration whose __cause__ IS the injected object (KeyboardInterrupt propagates as itself);
  success is False and the status names the failure;
  t, y equal bit for bit the first n rows of the reference, n = number of samples committed when call k started in
  the reference (for a fault inside an event function, which runs while the step is un-committed, n and n + 1 are both
  accepted, but trajectory, dense pieces and the resumed run must agree on the same choice);
  with dense output: exactly n - 1 pieces satisfying C06 oracles 1, 2, 4;
  at every third crash point a SECOND fault is injected 1 / 2 / 5 / 17 user calls into the resumed integrate(): it is
  reported the same way, the samples kept after the first fault are still a bit-identical prefix, the kept grid is
  strictly monotone and (dense output) consistent;
  integrate() again (fault off) reaches the target, satisfies the C03 invariants, is as accurate as the fault-free run
  (error against an accurate solution <= 3 x that of the fault-free run + 1e-9 relative / 50 x tolerance) and its dense output is consistent,
  including the first piece after the resume point;
  reset() followed by integrate() reproduces the reference bit for bit.
"""
import numpy as np
from hypothesis import strategies as st

from pbt import methods as M
from pbt import problems as PR
from pbt import traj
from pbt.core import V, Part, exc_sig, exc_origin

ID = "C12"
LEVEL = "fault_enumeration"
RULE = ("Configurations are Hypothesis-generated; within a configuration crash points are ENUMERATED over every user-callable "
        "invocation of the fault-free run (sub_evaluations.crash_points; exhaustive per configuration when E <= the tier's cap: "
        "160 quick, 1200 thorough). Distinct = SHA-1 of the configuration JSON. Non-trivial = a configuration with >= 1 crash "
        "point inside a step after at least one committed step (measured).")
ASSUMPTIONS = ["the commit count seen inside each call of the reference run defines the expected prefix length",
               "resumed-run agreement: 1e-9 relative (explicit fixed step), 50 x (atol + rtol |y|) otherwise"]


class Injected(Exception):
    pass


FAULTS = {"custom": Injected, "runtime": RuntimeError, "zerodiv": ZeroDivisionError, "keyboard": KeyboardInterrupt}


ROTATION = ["custom", "keyboard", "runtime", "nested", "zerodiv", "keyboard"]


def fault_kind(case, call_index):
    """'rotate': the kind of exception depends on the crash point, so every configuration meets every kind"""
    return ROTATION[call_index % len(ROTATION)] if case["fault"] == "rotate" else case["fault"]


def make_fault(kind, msg):
    """'nested': user code (e.g. a callback driving an inner OdeSystem) raises the library's own FailedIntegration, chained
    to its own cause - still "the original cause" the outer failure has to carry"""
    if kind == "nested":
        import desolver as de
        e = de.exception_types.FailedIntegration(msg)
        e.__cause__ = RuntimeError("inner cause")
        return e
    return FAULTS[kind](msg)


@st.composite
def _config(draw, cap=160):
    method = draw(traj.method_name(weights=[4, 4, 2, 2, 1, 1]))
    fam = M.family(M.get(method))
    slow = fam in ("implicit_fixed", "implicit_embedded", "richardson")
    prob = draw(PR.prog_params(shapes=[[2]] if (slow or fam == "splitting") else [[1], [2], [3]]))
    for k in ("P", "Q"):
        prob[k] = [[x / 2.0 for x in row] for row in prob[k]]
    t0 = draw(st.sampled_from([0.0, 2.0, -1.0]))
    L = 1.0
    direction = draw(st.sampled_from([1.0, -1.0]))
    nsteps = draw(st.integers(3, 6 if slow else 12))
    against = draw(st.sampled_from([False, False, True]))
    terminal = draw(st.sampled_from([False, False, True]))
    # the initial step longer than the whole span (the library halves it before the loop): two recorded steps, with every user
    # call of both of them a crash point - also in calls heading against the declared span
    long_dt = draw(st.integers(0, 5)) == 0
    return _with_dense_for_kick(dict(part="faults", method=method, dtype="float64", prob=prob, y0=draw(PR.state(prob["shape"])), t0=t0, tf=t0 + direction * L,
                dt=(L / nsteps) if not long_dt else 2.5 * L, rtol=1e-6, atol=1e-6, dense=draw(st.booleans()) or (against and draw(st.booleans())), callbacks=draw(st.booleans()),
                events=draw(st.sampled_from(([[], [], [0.37], [0.37, 0.62]] if not against else [[], [0.37], [0.37, 0.62], [0.62]]) if not terminal else [[0.37], [0.37, 0.62], [0.62], [0.37, 0.81]])), user_jac=draw(st.booleans()),
                fault=draw(st.sampled_from(["rotate", "rotate", "rotate", "custom", "runtime", "zerodiv", "keyboard", "nested"])), cap=cap,
                # a second fault, `second` user-callable calls into the resumed integrate() (at every third crash point)
                second=draw(st.sampled_from([0, 0, 1, 2, 5, 17])), against_span=against, noop_first=draw(st.sampled_from([False, False, True])),
                # the last event is terminal: the run ends with the re-integration up to it (a nested integrate call), whose
                # user calls are crash points like any other
                terminal=terminal,
                # a forcing term that switches on sharply in the middle of the span: the error controller rejects a step well
                # after the start of the run (smooth problems have their only rejections in the very first step), so crash points
                # fall into RE-ATTEMPTS of a step
                kick=(dict(at=draw(st.sampled_from([0.45, 0.6, 0.72])), amp=draw(st.sampled_from([4.0, 20.0, -8.0])), width=draw(st.sampled_from([0.004, 0.012])))
                      if (fam in ("embedded", "implicit_embedded", "richardson") and draw(st.sampled_from([True, True, False]))) else None)))


def _with_dense_for_kick(case):
    if case.get("kick"):
        case["dense"] = True       # (what a re-attempted step leaves behind shows in the first dense-output piece after the resume)
    return case


def parts(tier):
    q = tier == "quick"
    return [Part("faults", strategy=_config(cap=160 if q else 1200), examples=48 if q else 600, timeout=900 if q else 3600)]


class Kicked(object):
    """f(t, y) + amp (1 + tanh((t - tc) / width)) / 2 in every component: smooth, but switching on within a few widths"""

    def __init__(self, f, tc, amp, width):
        self.f0, self.tc, self.amp, self.width = f, tc, amp, width
        self.shape, self.n, self.p = f.shape, f.n, f.p

    def __call__(self, t, y, **kw):
        out = self.f0(t, y)
        return out + np.asarray(self.amp * 0.5 * (1.0 + np.tanh((float(t) - self.tc) / self.width)), dtype=out.dtype)

    def jac(self, t, y, **kw):
        return self.f0.jac(t, y)


class Harness(object):
    """one system with instrumented user callables; fault_at = global call index (1-based) or None"""

    def __init__(self, case, fault_at=None):
        import desolver as de
        self.case = case
        self.calls = 0
        self.fault_at = fault_at
        self.fault_obj = None
        self.log = []          # (kind, committed samples at call time)
        self.a = None
        f = PR.Prog(case["prob"])
        if case.get("kick"):
            f = Kicked(f, case["t0"] + case["kick"]["at"] * (case["tf"] - case["t0"]), case["kick"]["amp"], case["kick"]["width"])
        self.f = f
        outer = self

        def tick(kind):
            outer.calls += 1
            n = len(outer.a) if outer.a is not None else 0
            outer.log.append((kind, n))
            if outer.fault_at is not None and outer.calls == outer.fault_at:
                outer.fault_at = None
                outer.fault_obj = make_fault(fault_kind(case, outer.calls), "injected at call {} ({})".format(outer.calls, kind))
                raise outer.fault_obj

        class RHS(object):
            def __call__(self, t, y, **kw):
                tick("rhs")
                return f(t, y)
        rhs = RHS()
        if case["user_jac"]:
            def jac(t, y, **kw):
                tick("jac")
                return f.jac(t, y)
            rhs.jac = jac
        self.rhs = rhs
        self.events = []
        for fr in case["events"]:
            tc = case["t0"] + fr * (case["tf"] - case["t0"])

            def g(t, y, _tc=tc, **kw):
                tick("event")
                return t - _tc
            self.events.append(g)
        if case.get("terminal") and self.events:
            self.events[-1].is_terminal = True
        self.cbs = []
        if case["callbacks"]:
            def cb(system):
                tick("callback")
            self.cbs = [cb]
        y0 = np.asarray(case["y0"], dtype=np.float64).reshape(f.shape)
        self.y0 = y0.copy()
        # the constructor's probe call of the rhs is call #1
        self.a = None
        self.construct_error = None
        try:
            # `against_span`: the system is declared over (t0, t0 - (tf - t0)) and every call is integrate(tf) - heading against
            # the declared span (the direction of a call is that of its own target, not of the constructor's span)
            declared_tf = case["tf"] if not case.get("against_span") else case["t0"] - (case["tf"] - case["t0"])
            a = de.OdeSystem(rhs, y0=y0, t=(case["t0"], declared_tf), dense_output=case["dense"], dt=case["dt"], rtol=case["rtol"], atol=case["atol"])
            a.method = M.get(case["method"])
            if case.get("noop_first"):
                a.integrate(np.float64(case["t0"]))       # a call whose target is where the system already is: nothing to do
            self.a = a
        except BaseException as e:
            if self.fault_obj is e:
                self.construct_error = e
            else:
                raise

    def integrate(self):
        """returns (outcome, exception): 'ok' | 'failed' | 'keyboard' | 'other'"""
        import desolver as de
        try:
            if self.case.get("against_span"):
                self.a.integrate(self.case["tf"], callback=self.cbs, events=self.events or None)
            else:
                self.a.integrate(callback=self.cbs, events=self.events or None)
            return "ok", None
        except de.exception_types.FailedIntegration as e:
            return "failed", e
        except KeyboardInterrupt as e:
            return "keyboard", e
        except Exception as e:
            if self.fault_obj is e:
                return "bare_user_exception", e        # the injected exception came out unwrapped
            raise


def _points(E, first, tier_cap):
    ks = list(range(first, E + 1))
    if tier_cap is None or len(ks) <= tier_cap:
        return ks, True
    head, tail = ks[:10], ks[-10:]
    mid = ks[10:-10]
    stride = max(1, len(mid) // (tier_cap - 20))
    return sorted(set(head + mid[::stride] + tail)), False


def check(case):
    import desolver as de
    import os
    method = case["method"]
    fam = M.family(M.get(method))
    attrs = dict(method=method, family=fam, fault=case["fault"])
    labels = ["family:" + fam, "fault:" + case["fault"], "dense:on" if case["dense"] else "dense:off", "events:{}".format(len(case["events"])),
              "forcing_switched_on_mid_span" if case.get("kick") else "smooth_problem", "initial_step_longer_than_the_span" if abs(case["dt"]) > abs(case["tf"] - case["t0"]) else "initial_step_within_the_span",
              "callbacks:on" if case["callbacks"] else "callbacks:off", "backward" if case["tf"] < case["t0"] else "forward"] + (["call_against_declared_span"] if case.get("against_span") else [])
    sig = fam
    tier_cap = case.get("cap", 160)
    # ---- reference run
    ref = Harness(case)
    n_construct = ref.calls
    out, err = ref.integrate()
    if out != "ok":
        cause = getattr(err, "__cause__", None)
        if isinstance(cause, de.exception_types.FailedToMeetTolerances):
            return [], dict(nontrivial=False, labels=labels + ["reference_reported_failure"])
        return [V("reference_raised", "{}: the fault-free run raised {!r} caused by {!r}".format(method, err, cause), sig + exc_sig(err), **attrs)], dict(nontrivial=False, labels=labels)
    E = ref.calls
    t_ref = np.asarray(ref.a.t).copy()
    y_ref = np.asarray(ref.a.y).copy()
    ev_ref = [float(e.t) for e in ref.a.events]
    log = list(ref.log)
    # how many rhs calls each step of the reference run took (keyed by the number of samples committed at call time): a later
    # step that took at least twice as many as the cheapest one was attempted more than once
    per_step = {}
    for kind_, n_ in log:
        if kind_ == "rhs" and n_ >= 2:
            per_step[n_] = per_step.get(n_, 0) + 1
    if per_step and max(per_step.values()) >= 2 * min(per_step.values()):
        labels.append("a_later_step_was_attempted_more_than_once")
    if len(t_ref) > 400 or E > 6000:
        return [], dict(nontrivial=False, labels=labels + ["skipped:too_long"])
    ks, exhaustive = _points(E, n_construct + 1, tier_cap)
    stopped_ref = "terminated upon" in ref.a.integration_status
    t_end = float(t_ref[-1]) if stopped_ref else case["tf"]      # a terminal event ends the run (and every resumed run) there
    if case.get("terminal") and case["events"]:
        labels.append("terminal_event:" + ("stopped" if stopped_ref else "not_reached"))
    # accurate solution at tf (8th-order pair at 1e-11): the resumed run must be as accurate as the fault-free one
    fine = de.OdeSystem(lambda t, y, **kw: ref.f(t, y), y0=ref.y0.copy(), t=(case["t0"], t_end), dt=0.05, rtol=1e-11, atol=1e-11)
    fine.method = M.get("RK8713MSolver")
    fine.integrate()
    y_fine = np.asarray(fine.y)[-1]
    err_ref = float(np.max(np.abs(y_ref[-1] - y_fine)))
    # the end error of the fault-free run can be small by cancellation (seen: 2.4e-8 where single steps err by 6e-8): the
    # baseline is the larger of it and (number of steps) x (error of the first step)
    if len(t_ref) >= 2:
        one = de.OdeSystem(lambda t, y, **kw: ref.f(t, y), y0=ref.y0.copy(), t=(case["t0"], float(t_ref[1])), dt=0.05, rtol=1e-11, atol=1e-11)
        one.method = M.get("RK8713MSolver")
        one.integrate()
        err_ref = max(err_ref, (len(t_ref) - 1) * float(np.max(np.abs(y_ref[1] - np.asarray(one.y)[-1]))))
    viols = []
    deep = 0
    double = 0
    tol_res = 50 * (case["atol"] + case["rtol"] * float(np.max(np.abs(y_ref))))
    for k in ks:
        kind, n_expected = log[k - 1]
        h = Harness(case, fault_at=k)
        out, err = h.integrate()
        where = "fault #{} of {} ({} call, {} samples committed)".format(k, E, kind, n_expected)
        a = h.a
        if n_expected >= 2:
            deep += 1
        # ---- how the failure is reported
        if fault_kind(case, k) == "keyboard":
            if out != "keyboard" or err is not h.fault_obj:
                viols.append(V("keyboard_interrupt_not_propagated", "{}: {}: outcome {!r}, exception {!r}".format(method, where, out, err), sig, **attrs))
                break
            if "KeyboardInterrupt" not in a.integration_status or a.success:
                viols.append(V("status_after_interrupt", "{}: {}: status {!r}, success {}".format(method, where, a.integration_status, a.success), sig, **attrs))
                break
        else:
            if out != "failed":
                viols.append(V("failure_not_reported", "{}: {}: integrate returned {!r} ({!r})".format(method, where, out, err), sig + kind, kind=kind, **attrs))
                break
            if err.__cause__ is not h.fault_obj:
                viols.append(V("cause_lost", "{}: {}: FailedIntegration.__cause__ is {!r}, not the injected exception".format(method, where, err.__cause__), sig + kind, kind=kind, **attrs))
                break
            if a.success or "failed" not in a.integration_status:
                viols.append(V("status_after_failure", "{}: {}: status {!r}, success {}".format(method, where, a.integration_status, a.success), sig, **attrs))
                break
        # ---- the prefix
        n = len(a)
        t = np.asarray(a.t)
        y = np.asarray(a.y)
        allowed_n = {n_expected, n_expected + 1} if kind == "event" else {n_expected}
        if len(t) != n or len(y) != n:
            viols.append(V("pairing", "{}: {}: len(system)={} len(t)={} len(y)={}".format(method, where, n, len(t), len(y)), sig + kind, kind=kind, **attrs))
            break
        if n not in allowed_n:
            viols.append(V("prefix_length", "{}: {}: the trajectory keeps {} samples, expected {}".format(method, where, n, sorted(allowed_n)), sig + kind, kind=kind, **attrs))
            break
        if not np.array_equal(t, t_ref[:n]) or not np.array_equal(y, y_ref[:n]):
            viols.append(V("prefix_content", "{}: {}: the kept samples differ from the first {} samples of the fault-free run".format(method, where, n), sig + kind, kind=kind, **attrs))
            break
        sgn_ = 1.0 if case["tf"] > case["t0"] else -1.0
        ahead = [float(e.t) for e in a.events if sgn_ * (float(e.t) - float(t[-1])) > 1e-12 * max(1.0, abs(float(t[-1])))]
        if ahead:
            viols.append(V("events_beyond_prefix", "{}: {}: the trajectory ends at {!r} but events are recorded at {}".format(method, where, float(t[-1]), ahead), sig + kind, kind=kind, **attrs))
            break
        if case["dense"]:
            dv = traj.dense_consistency(a, h.f, fam, dict(attrs, kind=kind), what="after " + where, sig_what="after fault in " + kind)
            if dv:
                viols += dv
                break
        elif a.sol is not None:
            viols.append(V("sol_not_none", "dense output off but sol is not None after the failure", sig, **attrs))
            break
        # ---- a second fault during the resumed call: reported the same way, what was kept stays kept
        if case.get("second") and (k - ks[0]) % 3 == 0 and fault_kind(case, k) != "keyboard" and fault_kind(case, h.calls + case["second"]) != "keyboard":
            first_fault = h.fault_obj
            h.fault_at = h.calls + case["second"]
            outd, errd = h.integrate()
            where2 = where + ", then fault #{} of the resumed call".format(case["second"])
            if h.fault_obj is not first_fault:
                # the second fault fired
                if outd != "failed" or errd.__cause__ is not h.fault_obj or a.success:
                    viols.append(V("second_failure_not_reported", "{}: {}: outcome {!r}, cause {!r}, success {}".format(method, where2, outd, getattr(errd, "__cause__", None), a.success), sig + kind, kind=kind, **attrs))
                    break
                t2, y2 = np.asarray(a.t), np.asarray(a.y)
                if len(t2) != len(a) or len(y2) != len(a) or len(a) < n or not np.array_equal(t2[:n], t_ref[:n]) or not np.array_equal(y2[:n], y_ref[:n]):
                    viols.append(V("prefix_after_second_fault", "{}: {}: {} samples (t {}, y {}); the {} samples kept after the first fault are no longer its prefix".format(method, where2, len(a), len(t2), len(y2), n), sig + kind, kind=kind, **attrs))
                    break
                sg = 1.0 if case["tf"] > case["t0"] else -1.0
                if np.any(sg * np.diff(t2.astype(np.float64)) <= 0) or not np.all(np.isfinite(y2)):
                    viols.append(V("prefix_after_second_fault", "{}: {}: kept times not strictly monotone / states not finite: {}".format(method, where2, t2[-4:].tolist()), sig + kind, kind=kind, **attrs))
                    break
                if case["dense"]:
                    dv = traj.dense_consistency(a, h.f, fam, dict(attrs, kind=kind), what="after " + where2, sig_what="after second fault in " + kind)
                    if dv:
                        viols += dv
                        break
                double += 1
            else:
                h.fault_at = None       # the resumed call needed fewer calls than that: it simply completed (checked below as a resume)
        # ---- resume
        n_before_resume = len(a)
        out2, err2 = h.integrate()
        if out2 != "ok":
            cause2 = getattr(err2, "__cause__", None)
            if isinstance(cause2, de.exception_types.FailedToMeetTolerances) and fam.startswith("implicit"):
                continue
            viols.append(V("resume_raised", "{}: integrate() after {} raised {!r} caused by {!r}".format(method, where, err2, cause2), sig + kind + exc_sig(err2) if err2 is not None else sig, kind=kind, **attrs))
            break
        sgn = 1.0 if case["tf"] > case["t0"] else -1.0
        viols += traj.trajectory_invariants(a, case["t0"], h.y0, [(0, len(a) - 1, t_end, sgn)], np.float64, dict(attrs, kind=kind), check_status=False)
        if not viols and len(a) > n_before_resume and (not a.success or "failed" in a.integration_status or "not been run" in a.integration_status):
            # the resumed call advanced the system and returned normally: the status is that of this call, not of the one that
            # failed (a call that finds the system at its target already is a no-op and leaves the status alone)
            viols.append(V("resume_status", "success={} status={!r}".format(a.success, a.integration_status), sig + kind, kind=kind, **attrs))
        if viols:
            viols[-1].msg = "after resuming from " + where + ": " + viols[-1].msg
            break
        yf = np.asarray(a.y)[-1]
        d = float(np.max(np.abs(yf - y_fine)))
        # (a resumed call starts with the library's initial-step rule, so its grid may differ from the fault-free one:
        #  the resumed result must be as accurate as the fault-free result, not identical to it)
        allowed = 3 * err_ref + (1e-9 * (1 + float(np.max(np.abs(y_fine)))) if fam in ("explicit_fixed", "splitting") else tol_res)
        if case.get("kick") or (fam not in ("explicit_fixed", "splitting", "implicit_fixed") and err_ref > 0.5 * tol_res):
            # (with the forcing that switches on within a few thousandths of the span the error of ANY run depends on how its steps
            #  straddle the switch - the estimators do not see it, 40 x differences between two fault-free grids were measured:
            #  those configurations exist for the structural oracles)
            # the fault-free run itself misses its tolerance by far (the step controller is blind to the forcing that switches on,
            # open finding D29): where its error comes from which steps straddle the switch, "as accurate as the fault-free run"
            # has no meaning - the structural oracles above still apply
            if "baseline_far_from_tolerance:resume_accuracy_not_judged" not in labels:
                labels.append("baseline_far_from_tolerance:resume_accuracy_not_judged")
        elif not d <= allowed:
            viols.append(V("resume_inaccurate", "{}: after resuming from {} the final state is off by {:.3e} from an accurate solution (the fault-free run: {:.3e}; allowed {:.3e}); {} vs {} samples".format(
                method, where, d, err_ref, allowed, len(a), len(t_ref)), sig + kind, kind=kind, **attrs))
            break
        if case["dense"]:
            dv = traj.dense_consistency(a, h.f, fam, dict(attrs, kind=kind), what="after resuming from " + where, sig_what="after resume, fault in " + kind)
            if dv:
                viols += dv
                break
        if case["events"] and fam != "richardson":
            evs = sorted(float(e.t) for e in a.events)
            if len(evs) != len(ev_ref) or any(abs(u - v) > 1e-6 for u, v in zip(sorted(ev_ref), evs)):
                viols.append(V("resume_events", "{}: after resuming from {} the reported events are at {} (fault-free run: {})".format(method, where, evs, sorted(ev_ref)), sig + kind, kind=kind, **attrs))
                break
        # ---- reset restores a pristine system (every 8th crash point: it costs a full run)
        if (k - ks[0]) % 8 == 0:
            a.reset()
            out3, err3 = h.integrate()
            if out3 != "ok" or not np.array_equal(np.asarray(a.t), t_ref) or not np.array_equal(np.asarray(a.y), y_ref):
                viols.append(V("reset_after_failure", "{}: reset() + integrate() after {} does not reproduce the fault-free run bit for bit (outcome {}, {} vs {} samples, max diff {})".format(
                    method, where, out3, len(a), len(t_ref), float(np.max(np.abs(np.asarray(a.y)[-1] - y_ref[-1]))) if len(a) else None), sig, kind=kind, **attrs))
                break
    kinds = sorted(set(kd for kd, _ in log))
    labels += ["calls:" + kd for kd in kinds]
    if exhaustive:
        labels.append("all_crash_points_enumerated")
    return viols, dict(nontrivial=deep > 0, labels=labels, counts=dict(crash_points=len(ks), user_calls_in_reference=E, second_faults_during_resume=double))
