"""C03 - integration covers exactly the requested time span, in order.

Parts
  runs  Hypothesis draws (method family stratified, dtype, cheap linear problem, span of any sign/direction, initial dt
        smaller or larger than the span and of either sign, dense on/off) and a short history of operations
        {integrate(), integrate(t) ahead / behind / at the current time, integrate to a target 1..3 ulps away, set tf,
        set dt}. After every call that returns normally the structural invariants are asserted
        (traj.trajectory_invariants); a call that recorded no step must leave dt as it was.
  resolution  spans of 20 .. 400 ulps of t far from t = 0 (float32 / float64 / longdouble) with dt of 0.3 .. 10 ulps: a
        step below the spacing of the time axis must still advance (D37).
  long  fixed-step Euler / Heun / midpoint runs with 5 001 .. 12 000 steps (beyond the pre-allocated buffer), with and
        without dense output.
Fixed-step explicit runs are bounded by ceil(|span| / (|dt| - ulp/2)) + 2 recorded steps per call through a counting callback
(a deterministic non-termination guard: exceeding it is a violation); adaptive/implicit runs are capped for cost only.
"""
import math

import numpy as np
from hypothesis import strategies as st

from pbt import methods as M
from pbt import problems as PR
from pbt import traj
from pbt.core import V, Part, exc_sig, exc_origin

ID = "C03"
LEVEL = "exploration"
RULE = ("Hypothesis-generated (method, dtype, linear problem, span, dt, op list). Distinct = SHA-1 of the case JSON. "
        "Non-trivial = t0 != 0, or a backward call, or |tf| < |t0|, or more than one moving call, or more than 5000 steps.")
ASSUMPTIONS = ["end-time tolerance 64 eps max(1, |t_start|, |target|) (the loop's own exit test is 32 eps absolute)",
               "step bound ceil(|span|/|dt|) + 2 for fixed-step explicit runs; cost cap 6000 steps (400 for implicit methods and wrappers) otherwise, counted as capped"]

COST_CAP = 6000


@st.composite
def _runs(draw):
    method = draw(traj.method_name(weights=[5, 5, 2, 2, 1, 1]))
    fam = M.family(M.get(method))
    dtype = draw(st.sampled_from(["float64", "float64", "float64", "float32", "longdouble"]))
    if fam in ("implicit_fixed", "implicit_embedded", "richardson") and dtype == "longdouble":
        dtype = "float64"
    t0, tf = draw(traj.span())
    if dtype == "float32":
        t0, tf = float(np.float32(t0)), float(np.float32(tf))
        if abs(t0) > 50:
            t0, tf = t0 / 100.0, tf / 100.0
    L = abs(tf - t0)
    slow = fam in ("implicit_fixed", "implicit_embedded", "richardson")
    dt = draw(traj.step_size(L, lo=0.02 if slow else 0.004))
    prob = draw(PR.lin_params(dims=(1, 2) if fam != "splitting" else (2,), horizon=3 * L))
    n = len(prob["A"])
    ops = []
    nops = draw(st.integers(1, 4))
    for _ in range(nops):
        kind = draw(st.sampled_from(["integrate", "integrate", "integrate_to", "integrate_to", "set_tf", "set_dt", "integrate_ulps"]))
        if kind == "integrate_to":
            ops.append([kind, draw(st.sampled_from([-0.5, 0.25, 0.5, 1.0, 1.0, 1.5, 2.0, 0.0]))])   # t0 + frac (tf - t0)
        elif kind == "integrate_ulps":
            ops.append([kind, draw(st.sampled_from([1, -1, 2, 3, -2]))])                              # a target a few ulps from the current time
        elif kind == "set_tf":
            ops.append([kind, draw(st.sampled_from([0.5, 1.5, 2.0, -1.0]))])
        elif kind == "set_dt":
            ops.append([kind, draw(st.sampled_from([0.5, 0.1, 2.0, -0.25]))])                       # x |dt|
        else:
            ops.append([kind])
    tol = draw(st.sampled_from([1e-3, 1e-6, 1e-8])) if dtype != "float32" else draw(st.sampled_from([1e-3, 1e-4]))
    if fam in ("explicit_fixed", "splitting", "implicit_fixed") and draw(st.integers(0, 3)) == 0:
        tol = None         # the library's default tolerances (nothing passed to the constructor)
    return dict(part="runs", method=method, dtype=dtype, prob=prob, y0=draw(PR.state([n])), t0=t0, tf=tf, dt=dt,
                rtol=tol, atol=tol, dense=draw(st.booleans()), ops=ops, eta=draw(st.sampled_from([False] * 5 + [True])),
                # a callback that assigns the step size every k-th step (a step cap / floor / restart: system.dt = <magnitude>): the
                # assignment is oriented by the dt setter along the DECLARED span, whatever the direction of the running call
                cb_dt=draw(st.sampled_from([None, None, None, dict(every=1, factor=0.5), dict(every=2, factor=1.0), dict(every=3, factor=0.25)])))


@st.composite
def _resolution(draw):
    """spans a few hundred ulps long, far from t = 0, with steps around (and below) the spacing of the time axis"""
    method = draw(st.sampled_from(["RK4Solver", "EulerSolver", "RK45CKSolver", "RK5Solver", "RK8713MSolver", "SymplecticEulerSolver", "BackwardEuler", "RadauIIA5"]))
    fam = M.family(M.get(method))
    dtype = draw(st.sampled_from(["float32", "float64", "float32", "longdouble"]))
    if fam in ("implicit_fixed", "implicit_embedded") and dtype == "longdouble":
        dtype = "float64"
    dt_ = M.DTYPES[dtype]
    t0 = float(dt_(draw(st.sampled_from([8.0, -8.0, 1000.0, -3.5, 1e6, 1.0]))))
    ulp = float(np.spacing(dt_(abs(t0))))
    K = draw(st.sampled_from([20, 100, 400]))
    direction = draw(st.sampled_from([1.0, -1.0]))
    tf = float(dt_(t0 + direction * K * ulp))
    c = draw(st.sampled_from([0.3, 0.45, 0.6, 1.0, 1.5, 3.3, 10.0]))
    n = 2 if fam == "splitting" else 1
    prob = dict(kind="lin", A=[[0.0, 1.0], [-1.0, 0.0]] if n == 2 else [[-0.5]], horizon=1.0)
    return dict(part="runs", method=method, dtype=dtype, prob=prob, y0=[1.0, 0.0][:n] if n == 2 else [1.0], t0=t0, tf=tf, dt=c * ulp,
                rtol=1e-3, atol=1e-3, dense=draw(st.booleans()), ops=[["integrate"]] + ([["integrate_to", 0.0]] if draw(st.booleans()) else []))


@st.composite
def _half(draw):
    """float16: long spans (hundreds of time units: squares overflow at 256) and short ones, steps of either sign up to 3 x the
    remaining distance, explicit fixed-step and low-order adaptive methods"""
    method = draw(st.sampled_from(["RK4Solver", "EulerSolver", "MidpointSolver", "HeunEulerSolver", "SymplecticEulerSolver", "RK45CKSolver"]))
    fam = M.family(M.get(method))
    big = draw(st.booleans())
    t0 = float(np.float16(draw(st.sampled_from([0.0, 0.0, -300.0, 100.0, 2.0]))))
    L = float(np.float16(draw(st.sampled_from([1460.0, 900.0, 300.0, 2000.0] if big else [1.0, 8.0, 0.5, 30.0]))))
    direction = draw(st.sampled_from([1.0, -1.0]))
    tf = float(np.float16(t0 + direction * L))
    dt = float(np.float16(abs(tf - t0) * draw(st.sampled_from([0.27, 0.4, 0.125, 0.06, 0.9, 1.0]))))
    n = 2 if fam == "splitting" else 1
    prob = dict(kind="lin", A=[[0.0, 1.0], [0.0, 0.0]] if n == 2 else [[0.0]], horizon=1.0)      # constant states (q' = p = 0): the time axis is what is probed
    if draw(st.integers(0, 5)) == 0:
        # a declared span of more than 65504 steps (span / dt overflows in half precision): the system is built and a first
        # call covers 40 steps of it
        dt_small = float(np.float16(draw(st.sampled_from([1e-3, 4e-3]))))
        Lbig = float(np.float16(draw(st.sampled_from([100.0, 2000.0]))))
        return dict(part="runs", method=method, dtype="float16", prob=prob, y0=[1.0, 0.0][:n] if n == 2 else [1.0], t0=0.0, tf=direction * Lbig, dt=dt_small,
                    rtol=1e-2, atol=1e-2, dense=draw(st.booleans()), ops=[["integrate_to", float(np.float16(40 * dt_small / Lbig))]])
    return dict(part="runs", method=method, dtype="float16", prob=prob, y0=[1.0, 0.0][:n] if n == 2 else [1.0], t0=t0, tf=tf, dt=dt * draw(st.sampled_from([1.0, -1.0])),
                rtol=1e-2, atol=1e-2, dense=draw(st.booleans()), ops=[["integrate"]] + ([["integrate_to", draw(st.sampled_from([0.5, 0.0, 1.5]))]] if draw(st.booleans()) else []))


@st.composite
def _sharp_end(draw):
    """q' = p, p' = -W(t) q with W ramping up sharply at 96 % of the span: the clipped last step of the call is rejected and
    retried by the adaptive methods (embedded pairs, Richardson wrappers of explicit / splitting / implicit bases)"""
    method = draw(st.sampled_from(["RK45CKSolver", "DOPRI45", "HeunEulerSolver", "RK8713MSolver", "Rich2:RK4Solver", "Rich3:ABAs5o6HSolver", "Rich2:BABs9o7HSolver",
                                   "Rich3:SymplecticEulerSolver", "Rich2:ImplicitMidpoint", "Rich3:MidpointSolver",
                                   # implicit methods: a step whose Newton iteration fails is retried at 0.8 of its size
                                   "BackwardEuler", "ImplicitMidpoint", "CrankNicolson", "GaussLegendre4", "RadauIIA5", "LobattoIIIC4"]))
    t0 = draw(st.sampled_from([0.0, -3.0, 10.0]))
    L = draw(st.sampled_from([1.0, 2.0, 0.5]))
    sgn = draw(st.sampled_from([1.0, 1.0, -1.0]))
    return dict(part="sharp_end", method=method, dtype="float64", t0=t0, tf=t0 + sgn * L, dt=L * draw(st.sampled_from([0.3, 0.45, 0.24, 0.11])),
                amp=draw(st.sampled_from([50.0, 500.0, 5000.0])), width=draw(st.sampled_from([0.01, 0.003, 0.03])), where=draw(st.sampled_from([0.96, 0.9, 0.985])),
                rtol=draw(st.sampled_from([1e-4, 1e-6])), y0=[1.0, 0.0])


@st.composite
def _long(draw):
    method = draw(st.sampled_from(["EulerSolver", "HeunsSolver", "MidpointSolver", "SymplecticEulerSolver"]))
    nsteps = draw(st.integers(5001, 12000))
    t0 = draw(st.sampled_from([0.0, -3.0, 2.0]))
    direction = draw(st.sampled_from([1.0, -1.0]))
    L = draw(st.sampled_from([1.0, 4.0]))
    return dict(part="long", method=method, dtype="float64", prob=dict(kind="lin", A=[[0.0, 1.0], [-1.0, 0.0]], horizon=1.0), y0=[1.0, 0.0],
                t0=t0, tf=t0 + direction * L, dt=L / nsteps, rtol=1e-6, atol=1e-6, dense=draw(st.booleans()), ops=[["integrate"]])


def parts(tier):
    q = tier == "quick"
    return [Part("runs", strategy=_runs(), examples=1500 if q else 30000, timeout=300),
            Part("resolution", strategy=_resolution(), examples=200 if q else 3000, timeout=300),
            Part("half", strategy=_half(), examples=200 if q else 3000, timeout=300),
            Part("sharp_end", strategy=_sharp_end(), examples=160 if q else 3000, timeout=300),
            Part("long", strategy=_long(), examples=8 if q else 64, timeout=600, shards=8 if q else 16)]


def _check_sharp_end(case):
    import desolver as de
    method = case["method"]
    fam = M.family(M.get(method))
    attrs = dict(method=method, family=fam, dtype="float64")
    t0, tf = case["t0"], case["tf"]
    ts = t0 + case["where"] * (tf - t0)
    wdt = case["width"] * abs(tf - t0)
    amp = case["amp"]

    def rhs(t, y, **kw):
        return np.array([y[1], -(1.0 + 0.5 * amp * (1.0 + np.tanh((t - ts) / wdt))) * y[0]])
    a = de.OdeSystem(rhs, y0=np.array(case["y0"], dtype=np.float64), t=(t0, tf), dt=case["dt"], rtol=case["rtol"], atol=case["rtol"])
    a.method = M.get(method)
    attempts = []
    integ = a.integrator
    inner_name = "adaptive_richardson" if hasattr(integ, "adaptive_richardson") else "step"
    inner = getattr(integ, inner_name)

    def rec(rhs_, t_, y_, c_, h_):
        attempts.append((float(t_), float(h_)))
        return inner(rhs_, t_, y_, c_, h_)
    setattr(integ, inner_name, rec)
    err = traj.run_integrate(a, step_limit=3000)
    labels = ["sharp_end:" + method]
    if isinstance(err, traj.StepCap):
        return [], dict(nontrivial=False, labels=labels + ["capped"])
    if err is not None:
        if isinstance(err.__cause__, de.exception_types.FailedToMeetTolerances):
            return [], dict(nontrivial=False, labels=labels + ["reported_failure"])
        return [V("integrate_raised", "{}: raised {!r} caused by {!r}".format(method, err, err.__cause__), fam + exc_sig(err), **attrs)], dict(nontrivial=False, labels=labels)
    viols = traj.trajectory_invariants(a, t0, np.array(case["y0"], dtype=np.float64), [(0, len(a) - 1, tf, 1.0 if tf > t0 else -1.0)], np.float64, attrs)
    # was a step that had been clipped to the remaining distance retried with a smaller one?
    clipped_retry = False
    for (t1, h1), (t2, h2) in zip(attempts, attempts[1:]):
        if t1 == t2 and abs(abs(tf - t1) - abs(h1)) <= 1e-12 * max(1.0, abs(tf)) and abs(h2) < abs(h1):
            clipped_retry = True
    if clipped_retry:
        labels.append("clipped_last_step_was_retried")
    if inner_name == "step" and not viols:
        # what is recorded is what the integrator did: the length of each recorded step is the size of the last attempt made from
        # its start (a retried, shortened step must not be recorded as if it had reached the point first aimed at)
        tt = np.asarray(a.t, dtype=np.float64)
        last = {}
        for t_, h_ in attempts:
            last[t_] = h_
        for k in range(len(tt) - 1):
            h_last = last.get(float(tt[k]))
            if h_last is not None and abs((tt[k + 1] - tt[k]) - h_last) > 16 * float(np.finfo(np.float64).eps) * max(1.0, abs(tt[k]), abs(tt[k + 1])):
                viols.append(V("recorded_step_not_the_step_taken", "{}: step {} is recorded from {!r} to {!r} (length {!r}) but the last attempt made from there had size {!r}{}".format(
                    method, k, float(tt[k]), float(tt[k + 1]), float(tt[k + 1] - tt[k]), h_last, " (the clipped last step of the call)" if k == len(tt) - 2 else ""), fam, **attrs))
                break
    return viols, dict(nontrivial=clipped_retry, labels=labels)


def check(case):
    if case["part"] == "sharp_end":
        return _check_sharp_end(case)
    import desolver as de
    dt = M.DTYPES[case["dtype"]]
    method = case["method"]
    fam = M.family(M.get(method))
    attrs = dict(method=method, family=fam, dtype=case["dtype"])
    labels = ["family:" + fam, "dtype:" + case["dtype"]] + traj.span_class(case["t0"], case["tf"]) + (["progress_bar_requested"] if case.get("eta") else []) + (["default_tolerances"] if case.get("rtol") is None else []) + (["callback_assigns_dt"] if case.get("cb_dt") else [])
    viols = []
    try:
        a, f, y0 = traj.make_system(case)
    except Exception as e:
        if exc_origin(e)[0] == "harness":
            raise
        return [V("construction_raised", "OdeSystem construction raised {!r}".format(e), fam + exc_sig(e), **attrs)], dict(nontrivial=False, labels=labels)
    t0, tf = case["t0"], case["tf"]
    span = tf - t0
    segments = []
    moving_calls = 0
    backward = tf < t0
    fixed_explicit = fam in ("explicit_fixed", "splitting")
    for i, op in enumerate(case["ops"]):
        kind = op[0]
        if kind == "set_tf":
            new_tf = t0 + op[1] * span
            if abs(new_tf - t0) < 1e-9:
                continue
            try:
                a.tf = new_tf
            except ValueError:
                continue
            continue
        if kind == "set_dt":
            a.dt = float(a.dt) * op[1]
            continue
        cur = float(a.t[-1])
        if kind == "integrate_ulps":
            target = dt(cur)
            for _ in range(abs(op[1])):
                target = np.nextafter(target, dt(np.inf if op[1] > 0 else -np.inf))
            target = float(target)
        else:
            target = float(a.tf) if kind == "integrate" else float(dt(t0 + op[1] * span))
        n_before = len(a)
        status_before = a.integration_status
        dist = abs(target - cur)
        end_tol = 64 * float(np.finfo(dt).eps) * max(1.0, abs(cur), abs(target))
        if 4 * float(np.finfo(dt).eps) <= dist <= end_tol:
            # already within the end-time tolerance of the target: the call may or may not record a step - it is made, its
            # effect on later calls is what is checked
            dt_before = float(a.dt)
            err = traj.run_integrate(a, dt(target), step_limit=n_before + 140)   # at most ~128 ulps away: one step per ulp at worst
            if err is None and len(a) == n_before and abs(float(a.dt)) != abs(dt_before):
                viols.append(V("noop_changed_dt", "{}: integrate({!r}) from {!r} ({} ulps away) recorded no step (the target counts as reached) but changed dt from {!r} to {!r}".format(
                    method, target, cur, op[1] if kind == "integrate_ulps" else "a few", dt_before, float(a.dt)), fam, **attrs))
                break
            if err is not None:
                viols.append(V("integrate_raised", "{}: integrate({!r}) from {!r} (a few ulps away) raised {!r}".format(method, target, cur, err), fam + exc_sig(err) if not isinstance(err, traj.StepCap) else fam + "cap", **attrs))
                break
            labels.append("target_within_ulps")
            if len(a) > n_before:
                segments.append((n_before - 1, len(a) - 1, target, 1.0 if target > cur else -1.0))
            continue
        moving = dist > end_tol
        direction = 1.0 if target > cur else -1.0
        count_verdict = False
        if moving:
            dt_now = abs(float(a.dt))
            if dt_now > dist:
                dt_now = 0.5 * dist
            count_verdict = fixed_explicit
            if fixed_explicit and dt_now > 0:
                # t + dt is rounded to the time grid of the dtype: each step advances by at least dt - ulp/2 (and by at least
                # the smallest spacing in the range)
                ulp_t = float(np.spacing(dt(max(abs(cur), abs(target)))))
                eff = max(dt_now - 0.5 * ulp_t, 0.5 * ulp_t)
                need = int(math.ceil(dist / eff)) + 2
                limit = n_before + min(need, 50000)
                if need > 50000:
                    count_verdict = False      # the run is cut short by the harness' cost cap: "capped", no verdict on the step count
            else:
                limit = n_before + (400 if fam in ("implicit_fixed", "implicit_embedded", "richardson") else COST_CAP)
        else:
            limit = n_before + 5
        cbs_ = []
        if case.get("cb_dt"):
            count_verdict = False
            limit = n_before + (400 if fam in ("implicit_fixed", "implicit_embedded", "richardson") else COST_CAP)
            mag_ = abs(float(case["dt"])) * case["cb_dt"]["factor"]
            seen_ = [0]

            def assign_dt(system, _mag=mag_, _every=case["cb_dt"]["every"]):
                seen_[0] += 1
                if seen_[0] % _every == 0:
                    system.dt = _mag
            cbs_ = [assign_dt]
        err = traj.run_integrate(a, None if kind == "integrate" else dt(target), step_limit=limit, eta=bool(case.get("eta")), callbacks=cbs_)
        if isinstance(err, traj.StepCap):
            if moving and count_verdict:
                viols.append(V("too_many_steps", "{}: integrating from {!r} to {!r} with dt={!r} recorded more than ceil(|span|/(|dt| - ulp/2)) + 2 = {} steps".format(
                    method, cur, target, dt_now, limit - n_before), fam, **attrs))
            else:
                labels.append("capped")
            break
        if err is not None:
            cause = err.__cause__
            if isinstance(cause, de.exception_types.FailedToMeetTolerances) and fam in ("implicit_fixed", "implicit_embedded", "richardson"):
                labels.append("reported_failure")   # the property speaks about successful integrations
                break
            if isinstance(cause, de.exception_types.FailedToMeetTolerances):
                labels.append("reported_failure")
                break
            if isinstance(cause, np.linalg.LinAlgError) and fam in ("implicit_fixed", "implicit_embedded", "richardson"):
                # the stage system of an implicit method can be exactly singular (BackwardEuler on y' = y with h = 1:
                # (1 - h) y1 = y0 has no solution) - a reported failure, not a successful integration
                labels.append("reported_failure:singular_stage_system")
                break
            viols.append(V("integrate_raised", "{}: integrate({}) from {!r} raised {!r} caused by {!r}".format(method, "" if kind == "integrate" else target, cur, err, cause),
                           fam + exc_sig(err), **attrs))
            break
        if not moving:
            if len(a) != n_before or a.integration_status != status_before:
                viols.append(V("noop_changed_state", "integrate to the current time {!r} changed the system: len {} -> {}".format(cur, n_before, len(a)), fam, **attrs))
            continue
        moving_calls += 1
        backward |= direction < 0
        segments.append((n_before - 1, len(a) - 1, target, direction))
        viols += traj.trajectory_invariants(a, t0, y0, segments, dt, attrs)
        if len(a) <= n_before:
            viols.append(V("no_progress", "integrate toward {!r} from {!r} returned without recording a step".format(target, cur), fam, **attrs))
        if viols:
            break
    nsteps = len(a) - 1
    nontrivial = bool(t0 != 0 or backward or abs(tf) < abs(t0) or moving_calls > 1 or nsteps > 5000)
    if moving_calls > 1:
        labels.append("multi_call")
    if nsteps > 5000:
        labels.append(">5000_steps")
    return viols, dict(nontrivial=nontrivial and moving_calls >= 1, labels=labels, counts=dict(recorded_steps=nsteps))
