"""C19 - trajectory lookup by index and by time returns the right sample.

Recorded grids come from real runs (fixed-step and adaptive methods, forward and backward, one or two calls, dense
output on and off). Queries: every integer index in [-len-2, len+2]; times on, between and outside the samples;
slices [t_a:t_b] including the whole span in either orientation.
Oracle: Python sequence semantics for int indices (value equals (t[i], y[i]); IndexError exactly when a list of that
length raises); iteration yields each recorded (t, y) once, in order; with dense output system[t].y == sol(t);
without, system[t] is a recorded sample whose |t_i - t| is minimal (ties either way); the slice over the whole span
returns every sample. Between the two calls of a split run a time lookup is made; the first lookup after the
continuing call repeats it and must give the same (t, y) bit for bit.
"""
import numpy as np
from hypothesis import strategies as st

from pbt import methods as M
from pbt import problems as PR
from pbt import traj
from pbt.core import V, Part, exc_sig, exc_origin

ID = "C19"
LEVEL = "exploration"
RULE = ("Hypothesis-generated (method, linear problem, span, dt, 1..2 calls, dense flag, query fractions). Distinct = SHA-1 of the "
        "case JSON. Non-trivial = a grid with >= 3 samples that is backward, or queried at an interior time nearer to the left "
        "neighbour, or with negative indices (always included) - measured per case.")
ASSUMPTIONS = ["integer indices are Python ints and numpy integer scalars (int64, int32, intp), rotating over the index range"]


@st.composite
def _case(draw):
    method = draw(st.sampled_from(["RK4Solver", "EulerSolver", "RK45CKSolver", "DOPRI45", "HeunEulerSolver", "ABAs5o6HSolver", "ImplicitMidpoint", "RK8713MSolver"]))
    t0, tf = draw(traj.span(max_len=4.0))
    L = abs(tf - t0)
    prob = draw(PR.lin_params(dims=(2,), horizon=3 * L))
    frac = draw(st.sampled_from([1 / 4.0, 1 / 8.0, 1 / 16.0, 0.1, 0.3, 0.05, 0.5]))
    dtype = draw(st.sampled_from(["float64", "float64", "float32"]))
    if dtype == "float32":
        t0, tf = float(np.float32(t0)), float(np.float32(tf))
        if abs(t0) > 50:
            t0, tf = float(np.float32(t0 / 100.0)), float(np.float32(tf / 100.0))
        L = abs(tf - t0)
    return dict(part="lookup", method=method, dtype=dtype, qtype=draw(st.sampled_from(["np64", "np64", "pyfloat", "grid_dtype"])),
                redundant=draw(st.sampled_from([None, None, "integrate", "integrate_to_end", "both"])), prob=prob, y0=draw(PR.state([2])), t0=t0, tf=tf, dt=L * frac,
                rtol=1e-6 if dtype == "float64" else 1e-4, atol=1e-6 if dtype == "float64" else 1e-4, dense=draw(st.booleans()), cut=draw(st.sampled_from([None, 0.5, 0.3])),
                qfrac=draw(st.lists(st.floats(0.0, 1.0), min_size=4, max_size=8)), outside=draw(st.sampled_from([0.1, 1.0, 10.0])), itype=draw(st.integers(0, 3)),
                against=draw(st.sampled_from([False, False, True])), flip_tf=draw(st.sampled_from([False, False, True])),
                watch_event=draw(st.sampled_from([False, False, True])),
                # after the run and one lookup by time: reset(), the span mirrored about t0 (tf re-declared), a second run with the
                # same number of steps the other way - the lookups are judged on that second record
                rerun_mirrored=draw(st.sampled_from([False, False, False, True])),
                probe_in_callback=draw(st.sampled_from([False, False, True])))


def parts(tier):
    q = tier == "quick"
    return [Part("lookup", strategy=_case(), examples=2500 if q else 30000, timeout=300)]


def check(case):
    import desolver as de
    method = case["method"]
    fam = M.family(M.get(method))
    backward = case["tf"] < case["t0"]
    attrs = dict(method=method, family=fam, dense=bool(case["dense"]), direction="backward" if backward else "forward")
    labels = ["family:" + fam, "dense:on" if case["dense"] else "dense:off", "backward" if backward else "forward", "dtype:" + case.get("dtype", "float64")] + (["index_lookups_inside_a_callback"] if case.get("probe_in_callback") else [])
    mirror = case["t0"] - (case["tf"] - case["t0"])
    if case.get("against"):
        # the system is declared over the mirrored span and every call is an explicit integrate(t) against it
        a, f, y0 = traj.make_system(dict(case, tf=mirror))
        labels.append("calls_against_declared_span")
    else:
        a, f, y0 = traj.make_system(case)
    targets = ([case["t0"] + case["cut"] * (case["tf"] - case["t0"])] if case["cut"] else []) + [np.float64(case["tf"]) if case.get("against") else None]
    before = None
    for tg in targets:
        if before is not None:
            pass
        watch = None
        if case.get("watch_event"):
            tc_ = case["t0"] + 0.37 * (case["tf"] - case["t0"])

            def watch(t, y, _tc=tc_, **kw):      # a non-terminal event: the run keeps step interpolants for it even without dense output
                return t - _tc
        in_cb = []

        def probe(system):
            # index lookups made while integrate() is running (the buffers are over-allocated then)
            n_ = len(system)
            try:
                last, first = system[-1], system[-n_]
                if float(last.t) != float(system.t[-1]) or float(first.t) != float(system.t[0]) or float(system[n_ - 1].t) != float(system.t[-1]):
                    in_cb.append("inside a callback with {} samples: system[-1].t = {!r}, system[-len].t = {!r}, recorded t[-1] = {!r}, t[0] = {!r}".format(n_, float(last.t), float(first.t), float(system.t[-1]), float(system.t[0])))
            except Exception as e_:
                in_cb.append("inside a callback with {} samples: system[-1] / system[-len] raised {!r}".format(n_, e_))
            for bad_ in (-n_ - 1, n_):
                try:
                    system[bad_]
                    in_cb.append("inside a callback with {} samples: system[{}] did not raise IndexError".format(n_, bad_))
                except IndexError:
                    pass
                except Exception as e_:
                    in_cb.append("inside a callback with {} samples: system[{}] raised {!r}".format(n_, bad_, e_))
        err = traj.run_integrate(a, tg, step_limit=len(a) + 1500, events=[watch] if watch is not None else None, callbacks=[probe] if case.get("probe_in_callback") else None)
        if in_cb:
            return [V("index_inside_callback", in_cb[0], ("backward" if backward else "forward"), **attrs)], dict(nontrivial=False, labels=labels)
        if err is None and before is not None:
            # the first lookup after the continuing call repeats the last lookup before it, bit for bit
            try:
                again = a[np.float64(before[0])]
                if float(again.t) != before[1] or not np.array_equal(np.asarray(again.y), before[2]):
                    return [V("lookup_changed_by_continuation", "system[{!r}] was (t={!r}, y={}) before the continuing call and is (t={!r}, y={}) after it".format(
                        before[0], before[1], before[2].tolist(), float(again.t), np.asarray(again.y).tolist()), ("backward" if backward else "forward") + (":dense" if case["dense"] else ":nodense"), **attrs)], dict(nontrivial=False, labels=labels)
            except Exception as e:
                if exc_origin(e)[0] == "harness":
                    raise
                return [V("time_lookup_raised", "system[{!r}] after a continuing call raised {!r}".format(before[0], e), exc_sig(e), **attrs)], dict(nontrivial=False, labels=labels)
            before = None
        if err is None and tg is not None and len(a) >= 3:
            tt_ = np.asarray(a.t, dtype=np.float64)
            # strictly inside the part integrated so far (away from its moving end, where nearest-sample answers legitimately change)
            qb = float(tt_[1] + case["qfrac"][0] * 0.5 * (tt_[len(tt_) // 2] - tt_[1])) if case["qfrac"][0] > 0.3 else float(tt_[len(tt_) // 2 - 1] if len(tt_) > 3 else tt_[1])
            try:
                got_b = a[np.float64(qb)]
                before = (qb, float(got_b.t), np.array(got_b.y, dtype=np.float64, copy=True))
                labels.append("lookup_before_continuation")
            except Exception as e:
                if exc_origin(e)[0] == "harness":
                    raise
                return [V("time_lookup_raised", "system[{!r}] between two calls raised {!r}".format(qb, e), exc_sig(e), **attrs)], dict(nontrivial=False, labels=labels)
        if err is not None:
            if isinstance(err, traj.StepCap):
                return [], dict(nontrivial=False, labels=labels + ["capped"])
            if isinstance(err.__cause__, de.exception_types.FailedToMeetTolerances) and fam.startswith("implicit"):
                return [], dict(nontrivial=False, labels=labels + ["reported_failure"])
            return [V("integrate_raised", "{!r} caused by {!r}".format(err, err.__cause__), fam + exc_sig(err), **attrs)], dict(nontrivial=False, labels=labels)
    if case.get("rerun_mirrored") and not case.get("against") and len(a) >= 2:
        try:
            a[np.float64(0.5 * (float(a.t[0]) + float(a.t[-1])))]
            a[float(a.t[0]):float(a.t[-1])]
            a.reset()
            a.tf = mirror
        except Exception as e:
            if exc_origin(e)[0] == "harness":
                raise
            return [V("time_lookup_raised", "lookup / reset() / tf assignment after the first run raised {!r}".format(e), exc_sig(e), **attrs)], dict(nontrivial=False, labels=labels)
        err = traj.run_integrate(a, None, step_limit=len(a) + 1500)
        if err is not None:
            return [], dict(nontrivial=False, labels=labels + ["second_run_not_completed"])
        backward = not backward
        attrs["direction"] = "backward" if backward else "forward"
        labels.append("reset_and_rerun_the_other_way")
        case = dict(case, t0=case["t0"], tf=mirror, flip_tf=False)
    if case.get("redundant"):
        # calls made when the system is already at its target change nothing (C13) - in particular not what a lookup returns
        n_before = len(a)
        for how in (["integrate", "integrate_to_end"] if case["redundant"] == "both" else [case["redundant"]]):
            err = traj.run_integrate(a, None if how == "integrate" and not case.get("against") else a.t[-1], step_limit=len(a) + 5)
            if err is not None or len(a) != n_before:
                return [V("noop_call", "a call made at the target raised {!r} / recorded {} more samples".format(err, len(a) - n_before), "noop", **attrs)], dict(nontrivial=False, labels=labels)
        labels.append("redundant_call_before_the_lookups")
    if case.get("flip_tf") and not case.get("against"):
        try:
            a.tf = mirror        # the span is re-declared the other way after the run, before anything is looked up
            labels.append("tf_flipped_after_the_run")
        except ValueError:
            pass
    t = np.asarray(a.t, dtype=np.float64)
    y = np.asarray(a.y, dtype=np.float64)
    n = len(t)
    viols = []
    sig = "{}:{}".format("backward" if backward else "forward", "dense" if case["dense"] else "nodense")
    ref = list(range(n))
    # ---- integer indices
    itypes = [int, np.int64, np.int32, np.intp]
    for i in range(-n - 2, n + 3):
        try:
            ref[i]
            want_err = False
        except IndexError:
            want_err = True
        try:
            # the index is handed over as a Python int or as a numpy integer scalar (the items of np.arange(len(system)))
            ityp = itypes[(i + case.get("itype", 0)) % len(itypes)]
            got = a[ityp(i)]
            if want_err:
                viols.append(V("index_no_error", "system[{}] returned (t={!r}) for a trajectory of {} samples; a sequence raises IndexError".format(i, float(got.t), n), sig, **attrs))
                break
            if float(got.t) != t[i] or not np.array_equal(np.asarray(got.y), y[i]):
                viols.append(V("index_value", "system[{}({})] = (t={!r}) but the recorded sample is t={!r}".format(ityp.__name__, i, float(got.t), float(t[i])), sig, **attrs))
                break
        except IndexError:
            if not want_err:
                viols.append(V("index_error", "system[{}] raised IndexError for a trajectory of {} samples".format(i, n), sig, **attrs))
                break
        except Exception as e:
            if exc_origin(e)[0] == "harness":
                raise
            viols.append(V("index_raised", "system[{}] raised {!r} ({} samples)".format(i, e, n), sig + exc_sig(e), **attrs))
            break
    # ---- iteration
    if not viols:
        try:
            items = []
            for item in a:
                items.append(item)
                if len(items) > n + 5:
                    break
            if len(items) != n or any(float(it.t) != t[k] or not np.array_equal(np.asarray(it.y), y[k]) for k, it in enumerate(items)):
                viols.append(V("iteration", "iterating the system yields {} items for {} recorded samples (or items out of order)".format(len(items), n), sig, **attrs))
        except Exception as e:
            if exc_origin(e)[0] == "harness":
                raise
            viols.append(V("iteration_raised", "iteration raised {!r}".format(e), sig + exc_sig(e), **attrs))
    # ---- lookup by time
    lo, hi = float(min(t)), float(max(t))
    L = hi - lo
    queries = [float(x) for x in t] + [lo + q * L for q in case["qfrac"]] + [lo - case["outside"] * L, hi + case["outside"] * L]
    for k in range(n - 1):
        queries += [t[k] + 0.25 * (t[k + 1] - t[k]), t[k] + 0.75 * (t[k + 1] - t[k])]
    left_nearer = False
    if not viols:
        gdt = np.float32 if case.get("dtype") == "float32" else np.float64
        qkind = case.get("qtype", "np64")
        labels.append("query_as:" + qkind)
        for q in queries[:200]:
            qq = np.float64(q) if qkind == "np64" else (float(q) if qkind == "pyfloat" else gdt(q))
            q = float(qq)
            try:
                got = a[qq]
            except Exception as e:
                if exc_origin(e)[0] == "harness":
                    raise
                viols.append(V("time_lookup_raised", "system[{!r}] raised {!r}".format(q, e), sig + exc_sig(e), **attrs))
                break
            if case["dense"]:
                want = np.asarray(a.sol(qq))
                if not np.array_equal(np.asarray(got.y), want, equal_nan=True):
                    viols.append(V("time_lookup_dense", "system[{!r}].y differs from sol({!r})".format(q, q), sig, **attrs))
                    break
            else:
                d = np.abs(t - q)
                dmin = float(np.min(d))
                gt = float(got.t)
                hit = np.where(t == gt)[0]
                if len(hit) == 0 or not np.array_equal(np.asarray(got.y), y[hit[0]]):
                    viols.append(V("time_lookup_not_a_sample", "system[{!r}] returned t={!r} which is not a recorded sample".format(q, gt), sig, **attrs))
                    break
                # (a query that is not a double-precision number of its own is compared in the precision of the grid: distances
                # that differ by less than the rounding of the operands are a tie)
                slack = 0.0 if (gdt is np.float64 or qkind == "np64") else 4 * float(np.finfo(np.float32).eps) * max(abs(q), abs(gt), dmin)
                if abs(gt - q) > dmin * (1 + 1e-12) + 1e-300 + slack:
                    viols.append(V("time_lookup_nearest", "system[{!r}] returned the sample at t={!r} (distance {:.3e}) but the sample at t={!r} is nearer (distance {:.3e}); {} grid {}".format(
                        q, gt, abs(gt - q), float(t[int(np.argmin(d))]), dmin, "backward" if backward else "forward", t[:5].tolist()), sig, **attrs))
                    break
                j = int(np.argmin(d))
                if lo < q < hi and ((not backward and t[j] < q) or (backward and t[j] > q)):
                    left_nearer = True
    # ---- slices
    if not viols:
        for (sa, sb, name) in [(case["t0"], float(t[-1]), "start..end"), (None, None, "[:]"), (lo - 1.0, hi + 1.0, "beyond both ends") if not backward else (hi + 1.0, lo - 1.0, "beyond both ends")]:
            try:
                got = a[sa:sb]
                gt = np.asarray(got.t, dtype=np.float64)
                if len(gt) != n or not np.array_equal(gt, t) or not np.array_equal(np.asarray(got.y, dtype=np.float64), y):
                    viols.append(V("slice_whole_span", "system[{!r}:{!r}] ({}) returned {} of the {} samples ({} grid)".format(sa, sb, name, len(gt), n, "backward" if backward else "forward"), sig, **attrs))
                    break
            except Exception as e:
                if exc_origin(e)[0] == "harness":
                    raise
                viols.append(V("slice_raised", "system[{!r}:{!r}] raised {!r}".format(sa, sb, e), sig + exc_sig(e), **attrs))
                break
    nontrivial = bool(n >= 3 and (backward or left_nearer or True))
    if left_nearer:
        labels.append("query_nearer_to_left_neighbour")
    return viols, dict(nontrivial=nontrivial, labels=labels, counts=dict(samples=n, time_queries=min(len(queries), 200)))
