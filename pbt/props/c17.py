"""C17 - interval lookup and Hermite interpolation primitives are exact.

Parts
  bisect_exh  : exhaustive small scope: every strictly increasing array of length 1..L over an N-point grid
                (two grids) x every query on the half-step refined grid (+2 far outside) x container kinds;
                oracle  min(bisect.bisect_left(a, q), len(a) - 1)  for the scalar search, the scalar search for
                the vector one (full query vector and every single-query vector).
  bisect_gen  : random strictly increasing float arrays (length 1..40, any magnitude) with queries on, 1 ulp
                beside, between and outside the elements; sub-vectors of queries for the vector form.
  bisect_int  : whole-number axes (int64 arrays, lists of ints, float64 / float32 / float16 arrays of whole numbers, also
                around 2**11, 2**24, 2**53, 2**62 where the narrower float types stop resolving integers) searched with
                INTEGER queries: Python ints, numpy int64 / int32 scalars, 0-d integer arrays, integer vectors. Reference:
                bisect_left over exact Python ints.
  hermite     : random cubics given in the affine coordinate of the piece, interval of either orientation,
                array-valued data; end values / end slopes exact, value and gradient equal to the cubic and its
                derivative inside and up to two lengths outside.
"""
import bisect
import itertools

import numpy as np
from hypothesis import strategies as st

from pbt.core import V, Part, exc_sig

ID = "C17"
LEVEL = "exploration"
RULE = ("bisect_exh enumerates all strictly increasing arrays of length 1..L over an N-point grid (two grids) x "
        "container kinds, each case evaluating every query of the half-step refined grid plus two far-outside ones, "
        "scalar and vector; bisect_gen / hermite are Hypothesis-generated. Distinct = SHA-1 of the case JSON. "
        "Non-trivial = bisection case whose query set contains a query equal to an element AND one outside the range "
        "with len(array) >= 2; Hermite case with a reversed interval or array-valued data.")
ASSUMPTIONS = ["numpy back end only (torch not installed)",
               "bisect.bisect_left is the reference for 'first element not smaller than the query'",
               "reference cubic evaluated in longdouble",
               "integer queries on float axes stay within 2**53 (every operand exactly representable in float64); integer axes are searched with integer queries of any int64 magnitude"]

KINDS = ["list", "float32", "float64", "longdouble", "int64"]
DT = {"float32": np.float32, "float64": np.float64, "longdouble": np.longdouble, "int64": np.int64, "float16": np.float16}


def _container(vals, kind):
    if kind == "list":
        return [float(v) for v in vals]
    return np.asarray(vals, dtype=DT[kind])


def _enum(tier):
    n, lmax = (9, 7) if tier == "quick" else (12, 9)
    grids = [("int", 0.0, 1.0), ("frac", -1.0, 0.25)]

    def gen():
        for gname, off, sc in grids:
            for k in range(1, lmax + 1):
                for comb in itertools.combinations(range(n), k):
                    for kind in KINDS:
                        if kind == "int64" and gname != "int":
                            continue
                        yield dict(part="bisect_exh", arr=[off + sc * i for i in comb], kind=kind,
                                   queries=[off + sc * (j / 2.0) for j in range(-1, 2 * n)] + [off - 100.0, off + 100.0])
    return gen


@st.composite
def _bisect_gen(draw):
    n = draw(st.integers(1, 40))
    base = draw(st.floats(-1e6, 1e6, allow_nan=False))
    mode = draw(st.sampled_from(["ulp", "uniform", "geometric"]))
    vals = [base]
    for _ in range(n - 1):
        if mode == "ulp":
            k = draw(st.integers(1, 3))
            v = vals[-1]
            for _ in range(k):
                v = float(np.nextafter(v, np.inf))
        elif mode == "uniform":
            v = vals[-1] + draw(st.floats(1e-3, 10.0))
        else:
            v = vals[-1] + abs(vals[-1]) * draw(st.floats(1e-12, 1.0)) + draw(st.floats(1e-300, 1.0))
        if not (v > vals[-1]) or not np.isfinite(v):
            v = float(np.nextafter(vals[-1], np.inf))
        vals.append(v)
    kind = draw(st.sampled_from(["list", "float64", "longdouble", "float32", "float16"]))
    if kind in ("float32", "float16"):
        # nodes of a narrower type than the (float64) queries: the comparison has to happen in the wider type - a query half an
        # ulp of the node type above a node is above it. Values are kept in the range of the node type.
        lim = 6e4 if kind == "float16" else 1e30
        vals = [v for v in (float(np.dtype(kind).type(min(max(v, -lim), lim))) for v in vals)]
        vals = sorted(set(vals))
        n = len(vals)
    queries = []
    nq = draw(st.integers(1, 12))
    for _ in range(nq):
        how = draw(st.sampled_from(["elem", "below", "above", "between", "outside_lo", "outside_hi"]))
        i = draw(st.integers(0, n - 1))
        if how == "elem":
            q = vals[i]
        elif how == "below":
            q = float(np.nextafter(vals[i], -np.inf))
        elif how == "above":
            q = float(np.nextafter(vals[i], np.inf))
        elif how == "between":
            j = min(i + 1, n - 1)
            q = vals[i] + (vals[j] - vals[i]) * draw(st.floats(0, 1))
        elif how == "outside_lo":
            q = vals[0] - draw(st.floats(0, 1e6))
        else:
            q = vals[-1] + draw(st.floats(0, 1e6))
        queries.append(q)
    # how a scalar query is handed over: a numpy float64 scalar, a 0-d float64 array, or a Python float (which NumPy treats as a
    # weakly typed operand: against float32 / float16 nodes the library has to widen it itself - D58)
    qtype = draw(st.sampled_from(["pyfloat", "np64", "arr0d"]))
    return dict(part="bisect_gen", arr=vals, kind=kind, queries=queries, qtype=qtype)


@st.composite
def _bisect_int(draw):
    kind = draw(st.sampled_from(["int64", "intlist", "float64", "float32", "float16"]))
    bases = {"int64": [0, -7, 2 ** 24 - 6, 2 ** 31 - 4, 2 ** 53 - 5, 2 ** 53 + 1, -(2 ** 53) - 9, 2 ** 62, 1700000000000000000],
             "intlist": [0, -7, 2 ** 53 - 5, 2 ** 53 + 1, 2 ** 62, 1700000000000000000],
             "float64": [0, -7, 2 ** 24 - 6, 2 ** 31 - 4, 2 ** 52 - 3, -(2 ** 52)],
             "float32": [0, -7, 2 ** 24 - 6, 2 ** 24 + 2, -(2 ** 24) - 8, 2 ** 23 - 3],
             "float16": [0, -7, 2 ** 11 - 6, 2 ** 11 + 2, -(2 ** 11) - 8, 1000]}[kind]
    v = draw(st.sampled_from(bases))
    vals = [v]
    for _ in range(draw(st.integers(0, 11))):
        v = v + draw(st.sampled_from([1, 1, 2, 3, 4]))
        vals.append(v)
    queries = []
    for _ in range(draw(st.integers(1, 10))):
        i = draw(st.integers(0, len(vals) - 1))
        queries.append(vals[i] + draw(st.sampled_from([0, 0, 1, -1, 2, -2, 5, -40])))
    return dict(part="bisect_int", arr=vals, kind=kind, queries=queries, qtype=draw(st.sampled_from(["pyint", "pyint", "np64", "np32", "arr0d"])))


_SHAPES = [[], [1], [3], [2, 2], [2, 1, 3]]


@st.composite
def _hermite(draw):
    shape = draw(st.sampled_from(_SHAPES))
    size = int(np.prod(shape)) if shape else 1
    coef_mag = draw(st.sampled_from([1.0, 1e-3, 1e3]))
    coefs = [[draw(st.floats(-1, 1)) * coef_mag for _ in range(size)] for _ in range(4)]
    t0 = draw(st.one_of(st.sampled_from([0.0, 1.0, -1.0, 5.0, -10.0]), st.floats(-1e3, 1e3)))
    length = 10.0 ** draw(st.floats(-6, 3))
    sign = draw(st.sampled_from([1.0, -1.0]))
    us = [draw(st.one_of(st.floats(0, 1), st.floats(-2, 3))) for _ in range(draw(st.integers(1, 6)))]
    dtype = draw(st.sampled_from(["float64", "float64", "float32", "longdouble"]))
    ends = draw(st.sampled_from(["float", "float", "float", "float", "pyint", "npint"]))
    if ends != "float":
        # whole-numbered end points handed over as integers: CubicHermiteInterp(0, 2, ...)
        t0 = float(draw(st.integers(-10, 10)))
        length = float(draw(st.sampled_from([1, 2, 3, 7, 16])))
        dtype = "float64"
    # end values that coincide exactly (in some or all components) while the cubic between them is not constant
    return dict(part="hermite", shape=shape, coefs=coefs, t0=t0, L=sign * length, us=us, dtype=dtype, ends=ends,
                equal_ends=draw(st.sampled_from(["no", "no", "no", "all", "first"])))


def parts(tier):
    q = tier == "quick"
    return [
        Part("bisect_exh", enumerate=_enum(tier), timeout=60, exhaustive=True),
        Part("bisect_gen", strategy=_bisect_gen(), examples=3000 if q else 60000, timeout=60),
        Part("bisect_int", strategy=_bisect_int(), examples=3000 if q else 60000, timeout=60),
        Part("hermite", strategy=_hermite(), examples=5000 if q else 200000, timeout=60),
        # coverage-guided campaigns over the same strategies and oracles (pbt/fuzz.py)
        Part("bisect_cov", strategy=_bisect_gen(), fuzz=1600 if q else 160000, timeout=60),
        Part("hermite_cov", strategy=_hermite(), fuzz=1600 if q else 160000, timeout=60),
    ]


# --------------------------------------------------------------------------------------------------
def _check_bisect(case):
    from desolver import utilities as deutil
    vals = case["arr"]
    kind = case["kind"]
    arr = _container(vals, kind)
    ref_arr = [float(v) for v in (arr if kind == "list" else arr.tolist())]  # after dtype rounding
    if any(b <= a for a, b in zip(ref_arr, ref_arr[1:])):
        return [], dict(nontrivial=False, labels=["bisect:degenerate_after_cast"])
    viols = []
    qs = case["queries"]
    got_scalar = []
    has_eq = has_out = False
    for q in qs:
        qq = float(q)
        want = min(bisect.bisect_left(ref_arr, qq), len(ref_arr) - 1)
        has_eq |= qq in ref_arr
        has_out |= qq < ref_arr[0] or qq > ref_arr[-1]
        try:
            qt = case.get("qtype", "pyfloat")
            got = deutil.search_bisection(arr, qq if qt == "pyfloat" else (np.float64(qq) if qt == "np64" else np.asarray(qq, dtype=np.float64)))
        except Exception as e:
            viols.append(V("bisect_scalar_raises", "search_bisection({}, {!r}) raised {!r}".format(ref_arr, qq, e), exc_sig(e)))
            got_scalar.append(None)
            continue
        got_scalar.append(int(got))
        if int(got) != want:
            viols.append(V("bisect_scalar", "search_bisection({}, {!r}) = {} but first element not smaller (clipped) is {}".format(
                ref_arr, qq, int(got), want), "len{}".format(min(len(ref_arr), 3))))
    # vector form: whole vector, every single query, a sub-vector
    vec_sets = [list(range(len(qs)))] + [[i] for i in range(len(qs))] + [list(range(0, len(qs), 2))]
    whole = [i for i in range(len(qs)) if float(qs[i]) == int(qs[i]) and abs(qs[i]) < 2 ** 40]
    everything = vec_sets[0]
    vec_sets = [(ix, np.float64) for ix in vec_sets] + ([(whole, np.int64)] if whole else [])   # whole-number queries also as an integer array
    # query arrays narrower than float64 (a float32 / float16 array of times asked of a float64 axis): the question is then the
    # one about the ROUNDED queries, which are exact float64 numbers - the axis must not be rounded to meet them
    vec_sets += [(everything, np.float32), (everything, np.float16)]
    for idxs, qdtype in vec_sets:
        if not idxs:
            continue
        with np.errstate(over="ignore"):
            qv = np.asarray([qs[i] for i in idxs], dtype=qdtype)
        narrow = qdtype in (np.float32, np.float16)
        try:
            gv = deutil.search_bisection_vec(arr, qv)
            gv = [int(g) for g in np.asarray(gv).reshape(-1)]
            if len(gv) != len(idxs):
                raise ValueError("result length {} for {} queries".format(len(gv), len(idxs)))
        except Exception as e:
            viols.append(V("bisect_vec_raises", "search_bisection_vec({}, {}) raised {!r}".format(ref_arr, qv.tolist(), e), exc_sig(e)))
            continue
        for pos, (i, g) in enumerate(zip(idxs, gv)):
            want = min(bisect.bisect_left(ref_arr, float(qs[i]) if not narrow else float(qv[pos])), len(ref_arr) - 1)
            if g != want or (not narrow and got_scalar[i] is not None and g != got_scalar[i]):
                viols.append(V("bisect_vec", "search_bisection_vec({}, {})[{}] = {}, scalar search gives {}, reference {}".format(
                    ref_arr, qv.tolist(), idxs.index(i), g, got_scalar[i], want), "len{}".format(min(len(ref_arr), 3))))
                break
    labels = ["bisect:" + kind, "bisect:len1" if len(ref_arr) == 1 else "bisect:len>1"]
    if has_eq:
        labels.append("bisect:query_equals_element")
    if has_out:
        labels.append("bisect:query_outside")
    return viols, dict(nontrivial=bool(has_eq and has_out and len(ref_arr) >= 2), labels=labels)


def _check_hermite(case):
    from desolver.utilities.interpolation import CubicHermiteInterp
    dt = DT[case["dtype"]]
    LD = np.longdouble
    shape = tuple(case["shape"])
    c = [np.asarray(ck, dtype=dt).reshape(shape) for ck in case["coefs"]]
    cl = [ck.astype(LD) for ck in c]
    t0 = dt(case["t0"])
    t1 = dt(t0 + dt(case["L"]))
    L = LD(t1) - LD(t0)
    if L == 0 or not np.isfinite(float(L)):
        return [], dict(nontrivial=False, labels=["hermite:degenerate"])
    eps = float(np.finfo(dt).eps)
    sub = 64 * float(np.finfo(dt).smallest_subnormal) / eps      # below the normal range rounding is absolute, not relative
    # Hermite data of the cubic P(u) = c0 + c1 u + c2 u^2 + c3 u^3,  u = (t - t0)/L, rounded to dtype
    p0 = c[0]
    p1 = (cl[0] + cl[1] + cl[2] + cl[3]).astype(dt)
    if case.get("equal_ends", "no") == "all":
        p1 = p0.copy()          # (any four arrays are the end data of a cubic: the reference below is built from the data)
    elif case.get("equal_ends", "no") == "first" and p1.size:
        p1 = p1.copy()
        p1.reshape(-1)[0] = p0.reshape(-1)[0]
    m0 = (cl[1] / L).astype(dt)
    m1 = ((cl[1] + 2 * cl[2] + 3 * cl[3]) / L).astype(dt)
    # the piece is defined by the *rounded* data; the cubic through the rounded data, in longdouble:
    P0, P1, M0, M1 = [x.astype(LD) for x in (p0, p1, m0, m1)]
    scale = float(max(np.max(np.abs(P0)), np.max(np.abs(P1)), np.max(np.abs(M0 * L)), np.max(np.abs(M1 * L)), 1e-300))

    def ref(u):
        u = LD(u)
        h00 = 2 * u ** 3 - 3 * u ** 2 + 1
        h10 = u ** 3 - 2 * u ** 2 + u
        h01 = -2 * u ** 3 + 3 * u ** 2
        h11 = u ** 3 - u ** 2
        return h00 * P0 + h10 * L * M0 + h01 * P1 + h11 * L * M1

    def dref(u):
        u = LD(u)
        return ((6 * u ** 2 - 6 * u) * P0 + (3 * u ** 2 - 4 * u + 1) * L * M0 + (-6 * u ** 2 + 6 * u) * P1 + (3 * u ** 2 - 2 * u) * L * M1) / L

    viols = []
    sig = "{}:{}".format(case["dtype"], "rev" if case["L"] < 0 else "fwd")
    try:
        if case.get("ends", "float") == "pyint":
            H = CubicHermiteInterp(int(t0), int(t1), p0, p1, m0, m1)
        elif case.get("ends", "float") == "npint":
            H = CubicHermiteInterp(np.int64(t0), np.int64(t1), p0, p1, m0, m1)
        else:
            H = CubicHermiteInterp(t0, t1, p0, p1, m0, m1)
        for name, got, want in [("value@t0", H(t0), p0), ("value@t1", H(t1), p1), ("slope@t0", H.grad(t0), m0), ("slope@t1", H.grad(t1), m1)]:
            if np.shape(got) != shape or not np.array_equal(np.asarray(got), np.asarray(want)):
                viols.append(V("hermite_ends", "{}: got {} want {} (t0={}, t1={})".format(name, np.asarray(got).tolist(), np.asarray(want).tolist(), float(t0), float(t1)), sig + name))
        # what an evaluation hands out belongs to the caller: modifying it in place must not change the piece
        if not viols:
            for name, fn, tq, want in [("value@t0", H, t0, p0.copy()), ("value@t1", H, t1, p1.copy()), ("slope@t0", H.grad, t0, m0.copy()), ("slope@t1", H.grad, t1, m1.copy())]:
                first = fn(tq)
                if isinstance(first, np.ndarray):
                    first += dt(1)
                    if not np.array_equal(np.asarray(fn(tq)), want):
                        viols.append(V("hermite_ends_aliased", "{}: after `v = H(t); v += 1` the same evaluation returns {} (end data {})".format(name, np.asarray(fn(tq)).tolist(), want.tolist()), sig + name))
                        break
        for u in case["us"]:
            t = dt(LD(t0) + LD(u) * L)
            if t == t0 or t == t1:
                continue
            ut = (LD(t) - LD(t0)) / L
            amp = max(1.0, abs(float(ut))) ** 3
            got = np.asarray(H(t), dtype=LD)
            want = ref(ut)
            err = float(np.max(np.abs(got - want)))
            if np.shape(H(t)) != shape or not (err <= 1e3 * eps * (scale + sub) * amp):
                viols.append(V("hermite_value", "H(t0 + {:.6g} L) differs from the cubic through its own end data by {:.3e} (allowed {:.3e}); t0={}, L={}".format(
                    float(ut), err, 1e3 * eps * scale * amp, float(t0), float(L)), sig))
            gotg = np.asarray(H.grad(t), dtype=LD)
            wantg = dref(ut)
            errg = float(np.max(np.abs(gotg - wantg)))
            tolg = 1e3 * eps * (scale + sub) * amp / abs(float(L))
            if np.shape(H.grad(t)) != shape or not (errg <= tolg):
                viols.append(V("hermite_grad", "H.grad(t0 + {:.6g} L) differs from the derivative of the cubic by {:.3e} (allowed {:.3e}); t0={}, L={}".format(
                    float(ut), errg, tolg, float(t0), float(L)), sig))
    except Exception as e:
        viols.append(V("hermite_raises", "CubicHermiteInterp raised {!r}".format(e), exc_sig(e)))
    labels = ["hermite:" + case["dtype"], "hermite:ends_" + case.get("ends", "float"), "hermite:reversed" if case["L"] < 0 else "hermite:forward",
              "hermite:array" if shape else "hermite:scalar"]
    if any(u < 0 or u > 1 for u in case["us"]):
        labels.append("hermite:outside_query")
    return viols, dict(nontrivial=bool(case["L"] < 0 or shape), labels=labels)


def _check_bisect_int(case):
    """integer queries on whole-number axes; every comparison can be made exactly (integer against integer, or integer
    against a float type wide enough to hold both operands: queries stay within 2**53 for float axes)"""
    from desolver import utilities as deutil
    kind = case["kind"]
    if kind == "intlist":
        arr = [int(v) for v in case["arr"]]
        ref = list(arr)
    else:
        arr = np.asarray(case["arr"], dtype=DT[kind])
        ref = sorted(set(int(v) for v in arr.tolist()))          # (after rounding to the axis type: float32 beyond 2**24 ...)
        arr = np.asarray(ref, dtype=DT[kind])
        if [int(v) for v in arr.tolist()] != ref:
            return [], dict(nontrivial=False, labels=["bisect_int:degenerate_after_cast"])
    viols = []
    n = len(ref)
    qs = [int(q) for q in case["queries"]]
    qt = case["qtype"]
    got_scalar = []
    between = False
    for q in qs:
        want = min(bisect.bisect_left(ref, q), n - 1)
        between |= (ref[0] < q < ref[-1]) and q not in ref
        if qt == "np32" and abs(q) < 2 ** 31:
            qq = np.int32(q)
        elif qt == "np64" or qt == "np32":
            qq = np.int64(q)
        elif qt == "arr0d":
            qq = np.asarray(q, dtype=np.int64)
        else:
            qq = q
        try:
            got = int(deutil.search_bisection(arr, qq))
        except Exception as e:
            viols.append(V("bisect_scalar_raises", "search_bisection({} {}, {!r} [{}]) raised {!r}".format(kind, ref, q, qt, e), exc_sig(e)))
            got_scalar.append(None)
            continue
        got_scalar.append(got)
        if got != want:
            viols.append(V("bisect_scalar", "search_bisection({} {}, {!r} [{}]) = {} but the first element not smaller (clipped) is {}".format(
                kind, ref, q, type(qq).__name__, got, want), "int:{}".format(kind)))
            break
    if not viols:
        for how in ("int64_array", "list_of_ints"):
            qv = np.asarray(qs, dtype=np.int64) if how == "int64_array" else list(qs)
            try:
                gv = [int(g) for g in np.asarray(deutil.search_bisection_vec(arr, qv)).reshape(-1)]
            except Exception as e:
                viols.append(V("bisect_vec_raises", "search_bisection_vec({} {}, {}) raised {!r}".format(kind, ref, qs, e), exc_sig(e)))
                break
            want = [min(bisect.bisect_left(ref, q), n - 1) for q in qs]
            if gv != want or gv != got_scalar:
                viols.append(V("bisect_vec", "search_bisection_vec({} {}, {} [{}]) = {}, scalar search gives {}, reference {}".format(kind, ref, qs, how, gv, got_scalar, want), "int:{}".format(kind)))
                break
    labels = ["bisect_int:" + kind, "bisect_int:query_as_" + qt] + (["bisect_int:query_between_elements"] if between else [])
    big = max(abs(ref[0]), abs(ref[-1])) >= {"float16": 2 ** 11, "float32": 2 ** 24}.get(kind, 2 ** 53)
    if big:
        labels.append("bisect_int:beyond_the_integer_resolution_of_the_next_narrower_type")
    return viols, dict(nontrivial=bool(n >= 2 and (between or big)), labels=labels)


def check(case):
    if case["part"] == "bisect_int":
        return _check_bisect_int(case)
    if case["part"].startswith("bisect"):
        return _check_bisect(case)
    return _check_hermite(case)
