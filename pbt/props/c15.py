"""C15 - nonlinear system solvers only claim success at an actual solution.

Systems  F(x) = M d + a tanh(N d) * |d| + b d^3 (+ c),  d = x - x*   (root at x* when c = 0)
         first-order form x = (u, v): F = (B (v - v*), C (u - u*) + b (u - u*)^3) - regular Jacobian with zero diagonal
         no-root systems: F(x) = x^2 + 1 (componentwise), and  F(x) = M x + c with singular M and c outside its range.
Solvers  nonlinear_roots (float32/float64 -> MINPACK path, longdouble -> built-in dogleg -> Newton trust region),
         hybrj and newtontrustregion called directly; with and without an analytic Jacobian; shapes (), (n,), (a, b).
Oracle   returned x has the shape of x0;  success => ||F(x)|| <= 10 tol (n + ||x||) max(1, ||J(x)||)  (the solvers' own
         x-criterion times the local Lipschitz constant - nothing tighter is claimed);  a system without a root =>
         success is False or ValueError / LinAlgError is raised (the failure protocol of the implicit integrators).
"""
import numpy as np
from hypothesis import strategies as st

from pbt.core import V, Part, exc_sig, exc_origin

ID = "C15"
LEVEL = "exploration"
RULE = ("Hypothesis draws (solver, dtype, shape, system family, conditioning incl. singular, start point near/far, tolerance, "
        "Jacobian given or not). Distinct = SHA-1 of the case JSON. Non-trivial = far start (>= 5 away), singular or rank-deficient "
        "matrix, a system without a root, or longdouble.")
ASSUMPTIONS = ["a reported success is judged by the true residual, recomputed by the harness in longdouble",
               "the bound 10 tol (n + |x|) max(1, |J|) is the solvers' documented x-criterion times the Lipschitz constant",
               "the undocumented keyword var_bounds is not exercised: with bounds shaped like x0 every solver raises ValueError, with column-shaped bounds the result has shape (n, n) and the chain rule multiplies element-wise (an unfinished feature, see DESIGN.md section 10)"]

DT = {"float32": np.float32, "float64": np.float64, "longdouble": np.longdouble}
SHAPES = [[], [1], [2], [3], [5], [8], [12], [2, 2], [2, 3]]
_fr = st.integers(-8, 8).map(lambda k: k / 4.0)


@st.composite
def _case(draw):
    solver = draw(st.sampled_from(["nonlinear_roots", "nonlinear_roots", "hybrj", "newtontrustregion"]))
    dtype = draw(st.sampled_from(["float64", "float64", "float32", "longdouble"]))
    shape = draw(st.sampled_from(SHAPES if dtype != "longdouble" else SHAPES[:5] + [[2, 2]]))
    n = int(np.prod(shape)) if shape else 1
    fam = draw(st.sampled_from(["root", "root", "root", "noroot_square", "noroot_inconsistent", "singular_root", "zero_diag", "expm1"]))
    if n == 1 and fam == "noroot_inconsistent":
        fam = "noroot_square"
    if fam == "zero_diag" and n % 2:
        fam = "root"
    mat = st.lists(st.lists(_fr, min_size=n, max_size=n), min_size=n, max_size=n)
    Mx = draw(mat)
    if fam == "root":
        # diagonally dominated: well conditioned unless the draw says otherwise
        boost = draw(st.sampled_from([0.0, 2.0, 4.0, 8.0]))
        Mx = [[Mx[i][j] + (boost if i == j else 0.0) for j in range(n)] for i in range(n)]
    elif fam in ("singular_root", "noroot_inconsistent"):
        Mx = [list(Mx[0]) if i == n - 1 and n > 1 else list(Mx[i]) for i in range(n)]  # last row repeats the first
        if n == 1:
            Mx = [[0.0]]
    return dict(part="solve", solver=solver, dtype=dtype, shape=shape, fam=fam, M=Mx, N=draw(mat),
                a=draw(st.sampled_from([0.0, 0.5, 1.0])), b=draw(st.sampled_from([0.0, 0.25, 1.0])),
                xstar=draw(st.lists(_fr, min_size=n, max_size=n)),
                start=draw(st.lists(st.sampled_from([0.0, 0.1, -0.2, 1.0, -3.0, 10.0, 30.0]), min_size=n, max_size=n)),
                # a start so far out that the residual there overflows (cubes of 1e110, exp(800)): inf, or nan where terms of both
                # signs meet - a point from which no solver can move, and certainly not a solution
                overflow_start=draw(st.sampled_from([None] * 9 + [1.0, -1.0, 0.0])),
                c=draw(st.lists(st.sampled_from([1.0, -2.0, 0.5]), min_size=n, max_size=n)),
                tol=draw(st.sampled_from({"float32": [1e-4, 1e-5], "float64": [1e-6, 1e-9, 1e-12], "longdouble": [1e-9, 1e-12, 1e-15]}[dtype])),
                with_jac=draw(st.booleans()), jac_layout=draw(st.sampled_from(["matrix", "tensor"])),
                flat_out=draw(st.sampled_from([False, False, True])),
                # memory layout of the initial guess (same values and shape): C order, Fortran order, a transposed view
                layout=draw(st.sampled_from(["C", "C", "F", "T"])))


def parts(tier):
    q = tier == "quick"
    return [Part("solve", strategy=_case(), examples=2500 if q else 40000, timeout=300),
            Part("solve_cov", strategy=_case(), fuzz=800 if q else 48000, timeout=300)]    # coverage-guided (pbt/fuzz.py)


class System(object):
    def __init__(self, case, dt):
        self.shape = tuple(case["shape"])
        self.n = int(np.prod(self.shape)) if self.shape else 1
        self.fam = case["fam"]
        self.case = case
        self.calls = 0

    def _c(self, dtype):
        c = self.case
        n = self.n
        return (np.asarray(c["M"], dtype=dtype).reshape(n, n), np.asarray(c["N"], dtype=dtype).reshape(n, n),
                np.asarray(c["xstar"], dtype=dtype), np.asarray(c["c"], dtype=dtype))

    def F(self, x):
        self.calls += 1
        x = np.asarray(x)
        dtype = x.dtype if x.dtype.kind == "f" else np.dtype(np.float64)
        Mx, Nx, xs, cc = self._c(dtype)
        v = x.reshape(self.n)
        fam = self.fam
        if fam == "noroot_square":
            out = v * v + 1
        elif fam == "noroot_inconsistent":
            out = Mx @ v
            out = out + np.concatenate([np.zeros(self.n - 1, dtype=dtype), np.ones(1, dtype=dtype)])  # last two rows equal, rhs differs
        elif fam == "expm1":
            out = np.expm1(v - xs)
        elif fam == "zero_diag":
            # first-order form of a second-order system, x = (u, v):  F = (B (v - v*), C (u - u*) + b (u - u*)^3): regular
            # Jacobian with an exactly zero diagonal (the dogleg's initial trust region max|diag J| vanishes)
            m = self.n // 2
            d = v - xs
            Bm, Cm = self._blocks(dtype)
            T = dtype.type
            out = np.concatenate([Bm @ d[m:], Cm @ d[:m] + T(self.case["b"]) * d[:m] ** 3])
        else:
            d = v - xs
            T = dtype.type
            out = Mx @ d + T(self.case["a"]) * np.tanh(Nx @ d) * np.abs(d) + T(self.case["b"]) * d ** 3
        if self.case.get("flat_out") and len(self.shape) >= 1:
            return out.reshape(-1).astype(dtype, copy=False)       # the residual as a flat vector, whatever the shape of the unknown
        return out.reshape(self.shape).astype(dtype, copy=False)

    def _blocks(self, dtype):
        Mx, Nx, xs, cc = self._c(dtype)
        m = self.n // 2
        eye = np.eye(m, dtype=dtype)
        return Mx[:m, :m] + 6 * eye, Nx[:m, :m] + 6 * eye

    def J(self, x):
        x = np.asarray(x)
        dtype = x.dtype if x.dtype.kind == "f" else np.dtype(np.float64)
        Mx, Nx, xs, cc = self._c(dtype)
        v = x.reshape(self.n)
        fam = self.fam
        if fam == "noroot_square":
            return np.diag(2 * v)
        if fam == "noroot_inconsistent":
            return Mx.copy()
        if fam == "expm1":
            return np.diag(np.exp(v - xs))
        if fam == "zero_diag":
            m = self.n // 2
            d = v - xs
            Bm, Cm = self._blocks(dtype)
            Jm = np.zeros((self.n, self.n), dtype=dtype)
            Jm[:m, m:] = Bm
            Jm[m:, :m] = Cm + dtype.type(self.case["b"]) * np.diag(3 * d[:m] ** 2)
            return Jm
        d = v - xs
        T = dtype.type
        th = np.tanh(Nx @ d)
        Jm = Mx + T(self.case["a"]) * ((1 - th ** 2)[:, None] * Nx * np.abs(d)[:, None] + np.diag(th * np.sign(d))) + T(self.case["b"]) * np.diag(3 * d ** 2)
        return Jm


def check(case):
    from desolver.utilities import optimizer as opt
    dt = DT[case["dtype"]]
    S = System(case, dt)
    shape, n = S.shape, S.n
    x0 = (np.asarray(case["xstar"], dtype=dt) + np.asarray(case["start"], dtype=dt)).reshape(shape)
    if case.get("overflow_start") is not None and case["fam"] == "noroot_inconsistent":
        # (an inconsistent LINEAR system misses its right-hand side by 1; at |x| = 1e110 the rounding of M x alone is 1e94, so
        #  "has no root" cannot be told from "has one" there - the far starts are for the other families)
        case = dict(case, overflow_start=None)
    if case.get("overflow_start") is not None:
        big = {"float32": 1e15, "float64": 1e110, "longdouble": np.longdouble("1e1700")}[case["dtype"]] if case["fam"] != "expm1" else {"float32": 100.0, "float64": 800.0, "longdouble": 12000.0}[case["dtype"]]
        off = np.full(n, big, dtype=dt)
        if case["overflow_start"] == 0.0:
            off[1::2] *= -1          # alternating signs: inf - inf = nan where the matrix couples the components
        else:
            off *= dt(case["overflow_start"])
        if case["fam"] == "expm1":
            off = np.abs(off)        # (exp overflows on one side only)
        x0 = (np.asarray(case["xstar"], dtype=dt) + off).reshape(shape)
    if case.get("layout") == "F" and x0.ndim >= 2:
        x0 = np.asfortranarray(x0)
    elif case.get("layout") == "T" and x0.ndim >= 2:
        x0 = np.ascontiguousarray(x0.T).T
    tol = case["tol"]
    solver = case["solver"]
    labels = ["solver:" + solver, "dtype:" + case["dtype"], "fam:" + case["fam"], "jac:" + ("user" if case["with_jac"] else "fd"),
              "shape:{}d".format(len(shape))] + (["guess_not_c_ordered"] if (len(shape) >= 2 and case.get("layout") in ("F", "T")) else [])
    jac = None
    if case["with_jac"] or solver == "hybrj":
        if case["jac_layout"] == "matrix" or not shape:
            jac = (lambda x: S.J(x)) if shape else (lambda x: S.J(x).reshape(()))
        else:
            jac = lambda x: S.J(x).reshape(shape + shape)
    far = float(np.max(np.abs(case["start"]))) >= 5
    singular = case["fam"] in ("singular_root", "noroot_inconsistent")
    noroot = case["fam"].startswith("noroot")
    nontrivial = far or singular or noroot or case["dtype"] == "longdouble" or case["fam"] == "zero_diag"
    attrs = dict(solver=solver, dtype=case["dtype"], family=case["fam"])
    sig = "{}:{}:{}".format(solver, "ld" if case["dtype"] == "longdouble" else "hw", "noroot" if noroot else "root")
    import warnings
    try:
        with warnings.catch_warnings():
            warnings.simplefilter("ignore")
            if solver == "nonlinear_roots":
                x, info = opt.nonlinear_roots(S.F, x0.copy(order="K"), jac=jac, tol=tol)
                success = bool(info[0])
            elif solver == "hybrj":
                x, info = opt.hybrj(S.F, x0.copy(order="K"), jac, tol=tol)
                success = bool(info[0])
            else:
                x, info = opt.newtontrustregion(S.F, x0.copy(order="K"), jac=jac, tol=tol)
                success = bool(info[0])
    except (ValueError, np.linalg.LinAlgError, ZeroDivisionError) as e:
        if exc_origin(e)[0] == "harness":
            raise
        return [], dict(nontrivial=nontrivial, labels=labels + ["raised_documented_failure"])
    except Exception as e:
        if exc_origin(e)[0] == "harness":
            raise
        if singular or noroot:
            # a singular / unsolvable system: any exception is a report of failure (e.g. RuntimeError from the sparse
            # factorisation); the property only forbids presenting a non-solution as a success
            return [], dict(nontrivial=nontrivial, labels=labels + ["raised_other_failure:" + type(e).__name__])
        return [V("solver_raised", "{} raised {!r} ({})".format(solver, e, {k: case[k] for k in ("fam", "shape", "dtype", "tol")}), sig + exc_sig(e), **attrs)], dict(nontrivial=nontrivial, labels=labels)
    viols = []
    x = np.asarray(x)
    if x.shape != shape:
        viols.append(V("shape", "{} returned shape {} for an initial guess of shape {}".format(solver, x.shape, shape), sig, **attrs))
        return viols, dict(nontrivial=nontrivial, labels=labels)
    labels.append("success" if success else "reported_failure")
    if case.get("overflow_start") is not None:
        with np.errstate(all="ignore"):
            labels.append("residual_at_the_start:" + ("finite" if np.all(np.isfinite(np.asarray(S.F(x0.copy()), dtype=np.float64))) else "overflows"))
    if success:
        xl = x.astype(np.longdouble)
        with np.errstate(all="ignore"):
            res_own = float(np.linalg.norm(np.asarray(S.F(x.copy()), dtype=np.longdouble).reshape(-1)))      # in the precision of the call
            res = float(np.linalg.norm(np.asarray(S.F(xl), dtype=np.longdouble).reshape(-1)))
        if not np.isfinite(res_own) and not noroot:
            viols.append(V("false_success", "{} ({}) reports success at a point where the residual is {!r} (family {}, start {})".format(
                solver, case["dtype"], res_own, case["fam"], np.asarray(x0, dtype=np.float64).reshape(-1)[:3].tolist()), sig + ":nonfinite", residual="nonfinite", **attrs))
        elif not np.all(np.isfinite(x.astype(np.float64))):
            viols.append(V("false_success", "{} reports success at a non-finite point".format(solver), sig, **attrs))
        else:
            Jn = float(np.linalg.norm(S.J(x.astype(np.float64)).astype(np.float64), 2)) if n > 1 else float(abs(S.J(x.astype(np.float64)).reshape(-1)[0]))
            bound = 10 * tol * (n + float(np.linalg.norm(x.astype(np.float64).reshape(-1)))) * max(1.0, Jn)
            if noroot:
                viols.append(V("false_success", "{} ({}) reports success on a system without a root ({}): ||F(x)|| = {:.3e}".format(
                    solver, case["dtype"], case["fam"], res), sig, **attrs))
            elif not res <= bound:
                viols.append(V("false_success", "{} ({}) reports success with ||F(x)|| = {:.3e} > 10 tol (n + |x|) max(1, |J|) = {:.3e} (tol = {}, family {}, start offset {})".format(
                    solver, case["dtype"], res, bound, tol, case["fam"], case["start"]), sig, **attrs))
            return viols, dict(nontrivial=nontrivial, labels=labels, metrics={"residual/bound": res / bound if not noroot else None})
    return viols, dict(nontrivial=nontrivial, labels=labels)
