"""C14 - bracketing root finders return certified roots.

Cases: 1..16 component functions, each from a family with exactly known sign changes (after rounding the parameters
to the working dtype), a bracket in either order, a tolerance, a dtype.  Every component is solved with the scalar
solver; the whole vector with the vectorised solver (per-component brackets, or one shared bracket).
Oracles, with tol_eff = max(tol, 4 eps) and T = tol_eff max(1, |x|):
 (1) a finite returned point lies inside the bracket; the scalar "(inf, False)" no-bracket answer only without a strict sign change
 (2) strict sign change over the bracket  => success, and a sign change (or exact zero) of f within 4T of the point
 (3) success => |f(x)| <= tol_eff, or a sign change within 4T
 (4) same strict sign at both ends and min(|f(a)|, |f(b)|) > tol_eff => no success
 (5) vector and scalar solver: equal success flags; where both succeed the points agree within 4T or both satisfy (2)
"""
import numpy as np
from hypothesis import strategies as st

from pbt.core import V, Part, exc_sig, exc_origin

ID = "C14"
LEVEL = "exploration"
RULE = ("Hypothesis draws 1..16 component functions (families: linear, cubic with one real root, three-root polynomial, tanh, "
        "expm1, jump with sign change, piecewise linear with a kink at the root, sign-definite, double root, root at a bracket end), scale 1e-200..1e150 of either sign, root "
        "magnitude 0 or 1e-3..1e3, bracket widths 1e-3..1e2 (a sixth: up to 1e6) in either order, tolerance None..1e-3, dtype. Distinct = SHA-1 of the "
        "case JSON. Non-trivial = some component with scale outside [0.1, 10], or a jump, or a reversed bracket, or a root at an end.")
ASSUMPTIONS = ["sign changes of each family are known exactly from its parameters after rounding them to the working dtype",
               "tolerance semantics: relative to max(1, |x|), floor 4 eps (the solvers' own documented floor D.epsilon)"]

DT = {"float32": np.float32, "float64": np.float64, "longdouble": np.longdouble}
FAMILIES = ["lin", "cubic", "poly3", "tanh", "expm1", "jump", "definite", "double", "end", "both_ends", "kink", "int_tail"]


@st.composite
def _component(draw):
    fam = draw(st.sampled_from(FAMILIES))
    # (scales whose products f(a) f(b) leave the range of the working precision included: 1e-170 ** 2 underflows in double)
    s = draw(st.sampled_from([1.0, 1.0, 1e-6, 1e-3, 0.1, 10.0, 1e3, 1e6, 1e9, 1e-30, 1e-170, 1e-200, 1e150])) * draw(st.sampled_from([1.0, -1.0]))
    r = draw(st.one_of(st.just(0.0), st.floats(1e-3, 1e3), st.floats(-1e3, -1e-3), st.sampled_from([0.3, 1.0, -2.5, 100.0])))
    wide = draw(st.integers(0, 5)) == 0          # brackets many orders of magnitude wider than the distance that matters
    wl = 10.0 ** draw(st.floats(-3, 6 if wide else 2))
    wr = 10.0 ** draw(st.floats(-3, 6 if wide else 2))
    k = draw(st.sampled_from([1.0, 10.0, 1e3, 1e6, 0.01]))
    return dict(fam=fam, s=s, r=r, wl=wl, wr=wr, k=k, c=draw(st.sampled_from([0.5, 1.0, 4.0])),
                rev=draw(st.booleans()), gap=draw(st.floats(0.05, 0.45)))


@st.composite
def _case(draw):
    n = draw(st.sampled_from([1, 1, 2, 3, 5, 8, 16]))
    comps = [draw(_component()) for _ in range(n)]
    shared = draw(st.booleans())
    # how the vector solver is given the functions: a list of scalar functions, or ONE callable of the whole vector (which may
    # hand back its argument: f(x) = x)
    vec_mode = draw(st.sampled_from(["list", "list", "callable", "identity", "int_bounds"]))
    if vec_mode == "int_bounds":
        # whole-number bracket ends handed to the vector solver as INTEGER arrays ([0], [1]); the roots lie at 0.3
        comps = [dict(c, r=0.3, wl=0.3, wr=0.7, rev=False, fam=c["fam"] if c["fam"] in ("lin", "cubic", "tanh", "expm1", "jump", "kink") else "lin") for c in comps]
    if vec_mode == "identity":
        comps = [dict(c, fam="lin", s=1.0, r=0.0) for c in comps]
    return dict(part="brent", comps=comps, dtype=draw(st.sampled_from(["float64", "float64", "float32", "longdouble"])) if vec_mode != "int_bounds" else "float64",
                tol=draw(st.sampled_from([None, None, 1e-15, 1e-12, 1e-9, 1e-6, 1e-3])), shared=shared if vec_mode == "list" else False, vec_mode=vec_mode)


def parts(tier):
    q = tier == "quick"
    return [Part("brent", strategy=_case(), examples=6000 if q else 200000, timeout=60),
            # the same strategy and oracle under a coverage-guided campaign (libFuzzer mutates Hypothesis' choice bytes with
            # coverage feedback from the instrumented root finders)
            Part("brent_cov", strategy=_case(), fuzz=1600 if q else 160000, timeout=60)]


class Fn(object):
    """f with exactly known strict sign changes `roots` (sorted) inside/outside any bracket; evaluated in dtype."""

    def __init__(self, p, dt):
        T = dt
        self.p = p
        self.dt = dt
        self.s = T(p["s"])
        if not np.isfinite(self.s) or self.s == 0:
            # the drawn scale leaves the range of the working precision (1e150 or 1e-170 in float32): the nearest scale whose
            # SQUARE still leaves it, so that f itself stays finite and non-zero
            self.s = T(np.sign(p["s"]) * (1e30 if abs(p["s"]) > 1 else 1e-30))
        self.r = T(p["r"])
        self.k = T(p["k"])
        self.c = T(p["c"])
        fam = p["fam"]
        a = T(self.r - T(p["wl"]))
        b = T(self.r + T(p["wr"]))
        if fam == "end":
            if p["gap"] < 0.25:
                a = self.r
            else:
                b = self.r
        self.a, self.b = a, b
        self.calls = 0
        if fam == "poly3":
            # three simple roots r1 < r < r3, all strictly inside the bracket
            self.r1 = T(self.r - T(p["gap"]) * (self.r - a))
            self.r3 = T(self.r + T(p["gap"]) * (b - self.r))
        self.fam = fam

    def roots(self):
        fam = self.fam
        if fam in ("definite", "double"):
            return []
        if fam == "both_ends":
            return [np.longdouble(self.a), np.longdouble(self.b)] + ([np.longdouble(self.r)] if self.p["gap"] < 0.25 else [])
        if fam == "poly3":
            return [np.longdouble(self.r1), np.longdouble(self.r), np.longdouble(self.r3)]
        return [np.longdouble(self.r)]

    def __call__(self, x):
        self.calls += 1
        T = self.dt
        x = T(x)
        d = x - self.r
        fam = self.fam
        if fam in ("lin", "end"):
            return self.s * d
        if fam == "cubic":
            return self.s * d * (d * d + self.c)
        if fam == "poly3":
            return self.s * (x - self.r1) * d * (x - self.r3)
        if fam == "both_ends":
            # exactly zero at BOTH ends of the bracket, with (gap < 0.25) or without a sign change strictly inside
            return self.s * (x - self.a) * (x - self.b) * (d if self.p["gap"] < 0.25 else T(1))
        if fam == "tanh":
            return self.s * np.tanh(self.k * d)
        if fam == "expm1":
            return self.s * np.expm1(np.clip(self.k * d, -50, 50))
        if fam == "jump":
            return self.s * (T(1) if d >= 0 else T(-1)) * (T(1) + np.abs(d))
        if fam == "int_tail":
            # a Python int (-1 / +1) far to the left of the root, floats elsewhere: `np.exp(x) - 1.5 if x > 0.05 else -1`
            if d < -T(0.5) * T(self.p["wl"]):
                return -1 if self.s > 0 else 1
            return self.s * np.expm1(np.clip(self.k * d, -50, 50))
        if fam == "kink":
            # continuous, piecewise linear, slopes s and s k on the two sides of the root
            return self.s * (self.k * d if d > 0 else d)
        if fam == "definite":
            return self.s * (d * d + self.c)
        if fam == "double":
            return self.s * d * d
        raise KeyError(fam)


def check(case):
    from desolver.utilities import optimizer as opt
    dt = DT[case["dtype"]]
    eps4 = 4 * float(np.finfo(dt).eps)
    tol = case["tol"]
    tol_eff = max(tol if tol is not None else 0.0, eps4)
    fns = [Fn(p, dt) for p in case["comps"]]
    n = len(fns)
    if case.get("vec_mode") == "int_bounds":
        for f_ in fns:
            f_.a, f_.b = dt(0.0), dt(1.0)
    if case["shared"]:
        # one shared bracket: use the first component's bracket for all (other components see whatever it contains)
        for f in fns[1:]:
            f.a, f.b = fns[0].a, fns[0].b
    for f_ in fns:
        # a drawn scale times a wide bracket may leave the range of the working precision (float32: 1e30 x (1e6)^3): the scale is
        # taken down until the function is finite at both ends of its bracket
        for _ in range(8):
            with np.errstate(all="ignore"):
                ends_ = [float(f_(f_.a)), float(f_(f_.b))]
            if all(np.isfinite(v) for v in ends_):
                break
            f_.s = f_.s / dt(1e8)
        f_.calls = 0
    viols = []
    labels = ["dtype:" + case["dtype"], "n={}".format(n if n <= 3 else ">3"), "tol:" + str(tol), "shared_bracket" if case["shared"] else "own_brackets"]
    sigd = case["dtype"]
    nontrivial = False

    def T_of(x):
        return tol_eff * max(1.0, abs(float(x)))

    def dist(f, x):
        # distances in longdouble: float() would round a longdouble point by up to 1e-16
        return float(min([abs(np.longdouble(x) - r) for r in f.roots()] + [np.inf]))

    def near_sign_change(f, x):
        return dist(f, x) <= 4 * T_of(x)

    def classify(f, lo, hi):
        fa, fb = float(f(lo)), float(f(hi))
        strict = (fa < 0 < fb) or (fb < 0 < fa)
        same = (fa > 0 and fb > 0) or (fa < 0 and fb < 0)
        return fa, fb, strict, same

    def judge(f, lo, hi, x, ok, who, idx):
        out = []
        fa, fb, strict, same = classify(f, lo, hi)
        lo_, hi_ = min(float(lo), float(hi)), max(float(lo), float(hi))
        xf = float(x)
        fam = f.fam
        attrs = dict(solver=who, family=fam, dtype=case["dtype"])
        sig = "{}:{}".format(who, "scaled" if not (0.1 <= abs(f.p["s"]) <= 10) or fam in ("jump", "tanh", "expm1") else "unit")
        if np.isfinite(xf):
            if not (lo_ <= xf <= hi_):
                out.append(V("outside_bracket", "{} [{}] returned {!r} outside the bracket [{!r}, {!r}] ({})".format(who, idx, xf, lo_, hi_, f.p), sig, **attrs))
        elif strict or who == "vector":
            out.append(V("nonfinite_point", "{} [{}] returned {!r} for a bracket with f(a)={!r}, f(b)={!r} ({})".format(who, idx, xf, fa, fb, f.p), sig, **attrs))
        if (fa == 0.0 or fb == 0.0) and not strict:
            # an end of the bracket is an exact root: it (or another root) is reported, with success, inside the bracket
            if not ok or not np.isfinite(xf):
                out.append(V("end_root_not_reported", "{} [{}]: f(a)={!r}, f(b)={!r} (an end of the bracket is an exact root) but the solver returned x={!r}, success={}; {}".format(
                    who, idx, fa, fb, xf, ok, f.p), sig, **attrs))
        if strict:
            if not ok:
                out.append(V("sign_change_no_success", "{} [{}]: f changes sign over the bracket (f(a)={!r}, f(b)={!r}) but success is not reported; returned x={!r}, nearest sign change at distance {:.3e} (T={:.3e}); {}".format(
                    who, idx, fa, fb, xf, dist(f, x), T_of(x) if np.isfinite(xf) else np.nan, f.p), sig, **attrs))
            elif np.isfinite(xf) and not (near_sign_change(f, x) or float(f(x)) == 0.0):
                out.append(V("not_at_sign_change", "{} [{}]: returned x={!r} is {:.3e} away from the nearest sign change (4T={:.3e}); {}".format(
                    who, idx, xf, dist(f, x), 4 * T_of(x), f.p), sig, **attrs))
        if ok and np.isfinite(xf):
            fx = abs(float(f(x)))
            if not (fx <= tol_eff or near_sign_change(f, x)):
                out.append(V("false_success", "{} [{}]: success reported at x={!r} where |f|={:.3e} > tol={:.3e} and no sign change within 4T; {}".format(
                    who, idx, xf, fx, tol_eff, f.p), sig, **attrs))
        if same and min(abs(fa), abs(fb)) > tol_eff and ok:
            out.append(V("success_without_bracket", "{} [{}]: success reported although f has the same sign at both ends (f(a)={!r}, f(b)={!r}) and no end is a root; {}".format(
                who, idx, fa, fb, f.p), sig, **attrs))
        return out

    scalar = []
    scalar_x = {}
    for i, f in enumerate(fns):
        lo, hi = (f.b, f.a) if f.p["rev"] else (f.a, f.b)
        nontrivial |= (not 0.1 <= abs(f.p["s"]) <= 10) or f.fam in ("jump", "end", "both_ends") or f.p["rev"]
        labels.append("fam:" + f.fam)
        try:
            f.calls = 0
            x, ok = opt.brentsroot(f, [dt(lo), dt(hi)], tol=tol)
            x, ok = np.asarray(x), bool(ok)
        except Exception as e:
            if exc_origin(e)[0] == "harness":
                raise
            viols.append(V("scalar_raised", "brentsroot raised {!r} for {}".format(e, f.p), sigd + exc_sig(e), solver="scalar", family=f.fam))
            scalar.append(None)
            continue
        scalar.append((float(x), ok, lo, hi))
        scalar_x[i] = x
        viols += judge(f, lo, hi, x, ok, "scalar", i)
    # vectorised
    los = np.array([(f.b if f.p["rev"] else f.a) for f in fns], dtype=dt)
    his = np.array([(f.a if f.p["rev"] else f.b) for f in fns], dtype=dt)
    try:
        if case["shared"]:
            lo0 = fns[0].b if fns[0].p["rev"] else fns[0].a
            hi0 = fns[0].a if fns[0].p["rev"] else fns[0].b
            los[:] = lo0
            his[:] = hi0
            xs, oks = opt.brentsrootvec(list(fns), [dt(lo0), dt(hi0)], tol=tol)
        elif case.get("vec_mode", "list") == "callable":
            labels.append("vector_solver_given_one_callable")
            xs, oks = opt.brentsrootvec(lambda x: np.asarray([fns[i](x[i]) for i in range(n)], dtype=dt), [los.copy(), his.copy()], tol=tol)
        elif case.get("vec_mode") == "int_bounds":
            labels.append("vector_solver_given_integer_bounds")
            xs, oks = opt.brentsrootvec(list(fns), [np.zeros(n, dtype=np.int64), np.ones(n, dtype=np.int64)], tol=tol)
        elif case.get("vec_mode") == "identity":
            labels.append("vector_solver_given_the_identity")
            xs, oks = opt.brentsrootvec(lambda x: x, [los.copy(), his.copy()], tol=tol)
        else:
            xs, oks = opt.brentsrootvec(list(fns), [los.copy(), his.copy()], tol=tol)
        xs = np.asarray(xs).reshape(-1)
        oks = np.asarray(oks).reshape(-1)
        if len(xs) != n or len(oks) != n:
            raise ValueError("vector solver returned {} points / {} flags for {} functions".format(len(xs), len(oks), n))
    except Exception as e:
        if exc_origin(e)[0] == "harness":
            raise
        viols.append(V("vector_raised", "brentsrootvec raised {!r} for {}".format(e, [f.p for f in fns]), sigd + exc_sig(e), solver="vector"))
        return viols, dict(nontrivial=nontrivial, labels=labels)
    for i, f in enumerate(fns):
        lo, hi = los[i], his[i]
        if case["shared"] and scalar[i] is not None:
            # the scalar reference must see the same (shared) bracket
            try:
                x, ok = opt.brentsroot(f, [dt(lo), dt(hi)], tol=tol)
                scalar[i] = (float(x), bool(ok), lo, hi)
                scalar_x[i] = np.asarray(x)
                if i > 0:
                    viols += judge(f, lo, hi, np.asarray(x), bool(ok), "scalar", i)
            except Exception as e:
                if exc_origin(e)[0] == "harness":
                    raise
                scalar[i] = None
        viols += judge(f, lo, hi, xs[i], bool(oks[i]), "vector", i)
        if scalar[i] is not None:
            sx, sok, _, _ = scalar[i]
            fa, fb, strict, same = classify(f, lo, hi)
            attrs = dict(solver="both", family=f.fam, dtype=case["dtype"])
            if bool(oks[i]) != sok and (strict or same):
                viols.append(V("vector_scalar_flag", "component {}: vector success={} scalar success={} (x_vec={!r}, x_scalar={!r}); {}".format(
                    i, bool(oks[i]), sok, float(xs[i]), sx, f.p), "flags", **attrs))
            elif sok and bool(oks[i]) and np.isfinite(sx):
                if float(abs(np.longdouble(xs[i]) - np.longdouble(scalar_x[i]))) > 4 * T_of(sx) and not (near_sign_change(f, xs[i]) and near_sign_change(f, scalar_x[i])):
                    viols.append(V("vector_scalar_point", "component {}: vector x={!r} scalar x={!r} differ by more than 4T and are not both at a sign change; {}".format(
                        i, float(xs[i]), sx, f.p), "points", **attrs))
    mx = max(f.calls for f in fns)
    return viols, dict(nontrivial=nontrivial, labels=labels, metrics={"max_function_evaluations": mx})
