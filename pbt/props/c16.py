"""C16 - Jacobians are the true derivative, from the user's function when one is given.

Parts
  fd       JacobianWrapper(f, base_order, atol, rtol, flat) on smooth f : R^in -> R^out of arbitrary (non-square,
           multi-dimensional) shapes, f(x) = A phi(B (x * w)) + C x with phi in {sin, exp(-.), cubic, identity}; evaluation
           points with components in {0, 1e-8, 1, 3, 1e3} (w keeps the arguments bounded). Oracle: analytic Jacobian,
           layout J[i..., j...] = d f_i / d x_j (shape out + in; flat: (m, n)), error <= 100 (atol + rtol |J|) + floor.
  wrapper  histories over one DiffRHS: jac(t, y) at varying t (repeats, returns to earlier times, 0.0 first or not),
           hook_jacobian_call, unhook_jacobian_call, `wrapper.jac = fn`, rhs objects with their own .jac,
           set_jac_base_order, plain calls. Model: which user function (if any) is attached. Oracle: with a user Jacobian
           the returned object IS what that function returned and it saw the requested (t, y); otherwise the result is
           the analytic Jacobian at the *requested* time and state (the rhs is strongly time dependent), with layout
           state.shape + state.shape; no call raises.
"""
import numpy as np
from hypothesis import strategies as st

from pbt import problems as PR
from pbt.core import V, Part, exc_sig, exc_origin

ID = "C16"
LEVEL = "exploration"
RULE = ("fd: Hypothesis draws shapes, coefficient matrices, nonlinearity, evaluation point, base order 2..8, tolerances, flat. "
        "wrapper: Hypothesis draws an operation list (3..14 ops) interpreted against a DiffRHS and a model of the attached "
        "Jacobian. Distinct = SHA-1 of the case JSON. Non-trivial = fd case with non-square or multi-dimensional shapes; wrapper "
        "history with >= 2 distinct times and a hook or unhook.")
ASSUMPTIONS = ["finite-difference floor 1e-8 (|J| + |f| / (1 + |x|)) as probed in DESIGN.md (default tolerance is floor limited)",
               "wrapper accuracy bound 1e-6 relative: caching a time or state shows as an O(1) error because s(t) = 1 + 0.75 sin(2.5 t)"]

IN_SHAPES = [[1], [2], [3], [2, 2], [3, 1], [1, 2, 2]]
OUT_SHAPES = [[1], [2], [4], [2, 2], [2, 1, 2], [3]]
_fr = st.integers(-8, 8).map(lambda k: k / 8.0)


@st.composite
def _fd(draw):
    ins = draw(st.sampled_from(IN_SHAPES))
    outs = draw(st.sampled_from(OUT_SHAPES))
    n, m = int(np.prod(ins)), int(np.prod(outs))
    k = draw(st.integers(1, 3))
    return dict(part="fd", ins=ins, outs=outs,
                A=draw(st.lists(st.lists(_fr, min_size=k, max_size=k), min_size=m, max_size=m)),
                B=draw(st.lists(st.lists(_fr, min_size=n, max_size=n), min_size=k, max_size=k)),
                C=draw(st.lists(st.lists(_fr, min_size=n, max_size=n), min_size=m, max_size=m)),
                phi=draw(st.sampled_from(["sin", "exp", "cubic", "linear"])),
                # (large components: positions in metres of a solar-system problem are 1e11)
                x=draw(st.lists(st.sampled_from([0.0, 1e-8, 1.0, -1.0, 3.0, 1e3, -0.5, 1e5, -3e7, 1e9, 1.5e11]), min_size=n, max_size=n)),
                base_order=draw(st.integers(2, 8)),
                tol=draw(st.sampled_from([None, 1e-6, 1e-10])), flat=draw(st.booleans()),
                adaptive=draw(st.sampled_from([True, True, True, False])),
                # an integer-typed evaluation point and a function that keeps the dtype of its argument (x^3 - 2x elementwise)
                # memory layout of the evaluation point (same values and shape): C order, Fortran order, a transposed view
                layout=draw(st.sampled_from(["C", "C", "F", "T"])),
                int_point=draw(st.sampled_from([False, False, False, False, True])),
                xi=draw(st.lists(st.integers(-3, 3), min_size=n, max_size=n)),
                # a function that hands back its argument, or a view of it (no new array): x, x reversed, x transposed
                view=draw(st.sampled_from([None, None, None, None, None, "self", "reversed", "transposed", "asarray"])),
                # the SAME wrapper object is first asked at another point - one where the map is locally linear (far out on the
                # decaying side of exp, the origin of the cubic), the origin, or the judged point itself
                warm=draw(st.sampled_from([None, None, "flat", "flat", "zeros", "same"])))


@st.composite
def _ops(draw):
    shape = draw(st.sampled_from([[1], [2], [3], [2, 2]]))
    rhs = draw(PR.prog_params(shapes=[shape]))
    rhs["a"], rhs["w"] = 0.75, 2.5
    own = draw(st.booleans())
    nops = draw(st.integers(3, 14))
    times = [0.0, 1.0, -2.0, 0.5, 7.25]
    ops = []
    for _ in range(nops):
        kind = draw(st.sampled_from(["jac", "jac", "jac", "jac", "hook", "unhook", "assign", "order", "call", "other_jac", "other_jac", "raw_attach"]))
        if kind == "raw_attach" and (own or any(o[0] == "raw_attach" for o in ops)):
            kind = "jac"        # (at most once per history, and only on a function that has no Jacobian of its own)
        if kind in ("jac", "call", "other_jac"):
            ops.append([kind, draw(st.sampled_from(times)), draw(PR.state(shape))])
        elif kind in ("hook", "assign", "raw_attach"):
            # raw_attach: `f.jac = analytic` set on the user's OWN function object after the wrapper exists (and possibly after it
            # has already differentiated numerically): "attached by attribute"
            ops.append([kind, draw(st.integers(0, 2))])
        elif kind == "order":
            ops.append([kind, draw(st.integers(2, 7))])
        else:
            ops.append([kind])
    # the request times are handed over in ONE 0-d array that the caller updates in place (tbuf[...] = t), or as fresh scalars
    return dict(part="wrapper", rhs=rhs, own_jac=own, ops=ops, time_buffer=draw(st.sampled_from([False, False, True])))


def parts(tier):
    q = tier == "quick"
    return [Part("fd", strategy=_fd(), examples=4000 if q else 40000, timeout=120),
            Part("wrapper", strategy=_ops(), examples=3000 if q else 30000, timeout=120)]


def _check_fd(case):
    from desolver.utilities import JacobianWrapper
    ins, outs = tuple(case["ins"]), tuple(case["outs"])
    n, m = int(np.prod(ins)), int(np.prod(outs))
    A = np.asarray(case["A"], dtype=np.float64).reshape(m, -1)
    B = np.asarray(case["B"], dtype=np.float64).reshape(-1, n)
    C = np.asarray(case["C"], dtype=np.float64).reshape(m, n)
    x = np.asarray(case["x"], dtype=np.float64).reshape(ins)
    w = 1.0 / np.maximum(1.0, np.abs(x.reshape(n)))
    phi = case["phi"]
    if phi == "linear":
        A = A * 0.0

    def g(u):
        return {"sin": np.sin, "exp": lambda z: np.exp(-z), "cubic": lambda z: z ** 3, "linear": lambda z: z}[phi](u)

    def dg(u):
        return {"sin": np.cos, "exp": lambda z: -np.exp(-z), "cubic": lambda z: 3 * z ** 2, "linear": lambda z: np.ones_like(z)}[phi](u)

    def f(xx):
        v = np.asarray(xx).reshape(n)
        return (A @ g(B @ (v * w)) + C @ v).reshape(outs)

    v = x.reshape(n)
    Jtrue = (A @ (dg(B @ (v * w))[:, None] * B * w[None, :]) + C)
    fmag = float(np.max(np.abs(f(x)))) if m else 0.0
    if case.get("int_point"):
        outs, m = ins, n

        def f(xx):        # noqa: F811  (stays in the dtype of its argument: integers in, integers out)
            return xx * xx * xx - 2 * xx
        x = np.asarray(case["xi"], dtype=np.int64).reshape(ins)
        v = x.reshape(n).astype(np.float64)
        Jtrue = np.diag(3 * v ** 2 - 2)
        fmag = float(np.max(np.abs(v ** 3 - 2 * v)))
        case = dict(case, adaptive=True)
        phi = "cubic"          # (the accuracy bound of a nonlinear map applies, not the rounding-level bound of linear ones)
    if case.get("view") and not case.get("int_point"):
        mode = case["view"]

        def f(xx):        # noqa: F811  (a linear map that allocates nothing: what it returns shares memory with its argument)
            if mode == "self":
                return xx
            if mode == "asarray":
                return np.asarray(xx)
            if mode == "reversed":
                return xx[::-1]
            return xx.T
        outs = tuple(np.shape(f(x)))
        m = n
        Jtrue = np.stack([np.asarray(f(e.reshape(ins))).reshape(-1) for e in np.eye(n)], axis=1)
        fmag = float(np.max(np.abs(x))) if n else 0.0
        phi = "linear"
        case = dict(case, adaptive=True)
    tol = case["tol"]
    kw = {} if tol is None else dict(atol=tol, rtol=tol)
    viols = []
    sig = "{}:{}".format("flat" if case["flat"] else "tensor", phi) + (":view" if case.get("view") and not case.get("int_point") else "")
    attrs = dict(flat=case["flat"], phi=phi)
    try:
        if not case.get("adaptive", True):
            # fixed-depth Richardson mode: steps are scaled by the component value there; components that are tiny but
            # non-zero are outside what that mode resolves (observed on the unchanged tree), so they are rounded away
            x = np.where(np.abs(x) < 1e-6, 0.0, x)
            v = x.reshape(n)
            w = 1.0 / np.maximum(1.0, np.abs(v))
            Jtrue = (A @ (dg(B @ (v * w))[:, None] * B * w[None, :]) + C)
            fmag = float(np.max(np.abs(f(x)))) if m else 0.0
            kw["adaptive"] = False
            kw["richardson_iter"] = 6
        jw = JacobianWrapper(f, base_order=case["base_order"], flat=case["flat"], **kw)
        if case.get("layout") == "F":
            x = np.asfortranarray(x)
        elif case.get("layout") == "T" and x.ndim >= 2:
            x = np.ascontiguousarray(x.T).T
        if case.get("warm") and not case.get("int_point"):
            if case["warm"] == "flat":
                xw_ = (60.0 * np.sign(np.sum(B, axis=0) + 1e-9) if phi == "exp" else np.zeros(n)).reshape(np.shape(x))
            elif case["warm"] == "zeros":
                xw_ = np.zeros(np.shape(x))
            else:
                xw_ = np.array(x, dtype=np.float64, copy=True)
            jw(np.asarray(xw_, dtype=np.float64))
            warm_label = ["fd:same_wrapper_asked_elsewhere_first:" + case["warm"]]
        else:
            warm_label = []
        J = np.asarray(jw(x))
    except Exception as e:
        if exc_origin(e)[0] == "harness":
            raise
        return [V("fd_raised", "JacobianWrapper raised {!r} for in {} out {} base_order {}".format(e, ins, outs, case["base_order"]), sig + exc_sig(e), **attrs)], dict(nontrivial=False, labels=[])
    if case["flat"]:
        want_shape = (m, n) if (m, n) != (1, 1) else ()
        Jcmp = Jtrue if (m, n) != (1, 1) else Jtrue.reshape(())
    else:
        want_shape = outs + ins
        Jcmp = Jtrue.reshape(outs + ins)
    if J.shape != want_shape:
        viols.append(V("fd_layout", "JacobianWrapper(flat={}) returned shape {} for f: {} -> {}; expected {} (entry [i..., j...] = d f_i / d x_j)".format(
            case["flat"], J.shape, ins, outs, want_shape), sig, **attrs))
    else:
        teff = 4 * 4 * np.finfo(np.float64).eps if tol is None else tol
        Jmax = float(np.max(np.abs(Jtrue))) if Jtrue.size else 0.0
        if not case.get("int_point") and not case.get("view"):
            # the size of the derivatives the differences are formed from, not of their sum at this very point: where the
            # terms cancel (A B + C = 0 at x = 0) the Jacobian vanishes but the truncation error does not
            ninf_ = lambda Mx: float(np.max(np.sum(np.abs(Mx), axis=1))) if np.size(Mx) else 0.0
            Jmax = max(Jmax, ninf_(A) * ninf_(B) * float(np.max(w)) + ninf_(C))
        allowed = 100 * (teff + teff * Jmax) + 1e-8 * (Jmax + fmag / (1 + float(np.max(np.abs(x)))))
        if not case.get("adaptive", True):
            allowed = 1e-5 * (Jmax + fmag / (1 + float(np.max(np.abs(x)))) + 1e-3)      # no tolerance control in this mode: gross errors only
        elif phi == "linear":
            allowed = 1e-9 * (Jmax + fmag / (1 + float(np.max(np.abs(x))))) + 1e-13   # "to rounding for linear maps": at the stencil floor
        err = float(np.max(np.abs(J - Jcmp))) if J.size else 0.0
        if not err <= allowed:
            # distinguish a transposed layout from an inaccurate one
            transposed = (not case["flat"]) and J.size and np.allclose(J.reshape(m, n) if J.size == m * n else 0, Jtrue, atol=1e-6) is False and m == n and np.allclose(J.reshape(m, n).T, Jtrue, atol=1e-6)
            # open finding D65: the adaptive mode perturbs every component by ABSOLUTE steps 0.5 * 4**-m, so rounding noise
            # eps * max|x| / h enters every column once some component is large. Matched only for points with a component
            # >= 1e4 and only while the error stays below a bound that grows with that component (gross errors stay violations).
            xmax = float(np.max(np.abs(np.asarray(x, dtype=np.float64)))) if np.size(x) else 0.0
            scaled = allowed + 3e-12 * xmax * (Jmax + fmag / (1 + xmax) + 1e-3)
            viols.append(V("fd_accuracy" if not transposed else "fd_layout", "JacobianWrapper(base_order={}, tol={}, flat={}) differs from the analytic Jacobian by {:.3e} (allowed {:.3e}) for f: {} -> {} ({}) at x = {}".format(
                case["base_order"], tol, case["flat"], err, allowed, ins, outs, phi, case["x"]), sig + (":large_point" if xmax >= 1e4 else ""),
                xmax=xmax, excess_over_magnitude_scaled_bound=err / scaled, mode="adaptive" if case.get("adaptive", True) else "fixed", **attrs))
        metrics = {"fd_err/allowed": err / allowed}
        return viols, dict(nontrivial=bool(m != n or len(ins) > 1 or len(outs) > 1), labels=warm_label + ["fd:" + phi, "fd:flat" if case["flat"] else "fd:tensor", "fd:order{}".format(case["base_order"]), "fd:adaptive" if case.get("adaptive", True) else "fd:fixed_depth"] + (["fd:returns_view_of_argument:" + case["view"]] if case.get("view") and not case.get("int_point") else []), metrics=metrics)
    return viols, dict(nontrivial=bool(m != n or len(ins) > 1 or len(outs) > 1), labels=["fd:" + phi])


def _check_wrapper(case):
    from desolver import DiffRHS
    f = PR.Prog(case["rhs"])
    shape = f.shape
    log = []

    def make_user(k):
        def user_jac(t, y, **kw):
            out = np.asarray(f.jac(t, y)) * (1.0 + k)      # distinguishable user functions
            log.append((k, float(t), np.array(y, copy=True), out))
            return out
        return user_jac
    users = [make_user(k) for k in range(3)]
    own = make_user(9)

    if case["own_jac"]:
        class RHS(object):
            def __call__(self, t, y, **kw):
                return f(t, y)
            jac = staticmethod(own)
        target = RHS()
    else:
        def target(t, y, **kw):
            return f(t, y)
    w = DiffRHS(target)
    tbuf = np.array(0.0)
    # a second wrapper around the SAME callable (OdeSystem copies the DiffRHS it is given; a user may wrap one function twice):
    # what it is asked must not leak into the answers of the first
    w2 = DiffRHS(target) if any(o[0] == "other_jac" for o in case["ops"]) else None
    model_user = "own" if case["own_jac"] else None
    base_user = model_user      # what is in force when nothing is hooked / assigned
    hooked = False
    viols = []
    times = set()
    hooks = 0
    njev = 0
    attrs = dict(own_jac=case["own_jac"])
    for i, op in enumerate(case["ops"]):
        kind = op[0]
        hist = " after ops {}".format([o[0] if o[0] not in ("jac", "call") else "{}@{}".format(o[0], o[1]) for o in case["ops"][:i]])
        try:
            if kind == "jac":
                t = np.float64(op[1])
                y = np.asarray(op[2], dtype=np.float64).reshape(shape)
                times.add(op[1])
                nlog = len(log)
                if case.get("time_buffer"):
                    tbuf[...] = op[1]
                    J = w.jac(tbuf, y)
                else:
                    J = w.jac(t, y)
                njev += 1
                if model_user is not None:
                    want_k = 9 if model_user == "own" else model_user
                    if len(log) != nlog + 1 or log[-1][0] != want_k:
                        viols.append(V("user_jacobian_not_used", "jac(t={}, y) with user Jacobian #{} attached: calls made {}{}".format(op[1], want_k, [l[0] for l in log[nlog:]], hist), "user", **attrs))
                    else:
                        k_, t_, y_, out_ = log[-1]
                        if J is not out_:
                            viols.append(V("user_jacobian_not_returned", "jac() did not return the object the user Jacobian returned{}".format(hist), "user", **attrs))
                        if t_ != float(t) or not np.array_equal(y_, y):
                            viols.append(V("user_jacobian_wrong_args", "user Jacobian saw (t={}, y={}) for a request at (t={}, y={}){}".format(t_, y_.tolist(), op[1], op[2], hist), "user", **attrs))
                else:
                    if len(log) != nlog:
                        viols.append(V("detached_jacobian_called", "a detached user Jacobian was called{}".format(hist), "fd", **attrs))
                    Jt = np.asarray(f.jac(t, y))
                    J = np.asarray(J)
                    if J.shape != shape + shape:
                        viols.append(V("wrapper_layout", "finite-difference Jacobian through DiffRHS has shape {} for a state of shape {} (expected {}){}".format(J.shape, shape, shape + shape, hist), "fd:layout", **attrs))
                    else:
                        err = float(np.max(np.abs(J - Jt)))
                        allowed = 1e-6 * (float(np.max(np.abs(Jt))) + float(np.max(np.abs(f(t, y)))) + 1e-3)
                        if not err <= allowed:
                            viols.append(V("wrapper_value", "finite-difference Jacobian requested at t={} differs from the analytic Jacobian there by {:.3e} (allowed {:.3e}); at the previously requested times it would be {}{}".format(
                                op[1], err, allowed, {tt: float(np.max(np.abs(J - f.jac(np.float64(tt), y)))) for tt in sorted(times)}, hist), "fd:value", **attrs))
                if w.njev != njev:
                    viols.append(V("njev", "njev = {} after {} Jacobian requests{}".format(w.njev, njev, hist), "njev", **attrs))
            elif kind == "other_jac":
                t = np.float64(op[1])
                y = np.asarray(op[2], dtype=np.float64).reshape(shape)
                times.add(op[1])
                nlog = len(log)
                J2 = np.asarray(w2.jac(t, y))
                # (the second wrapper has nothing hooked: it answers with whatever Jacobian the function itself carries)
                want2 = np.asarray(f.jac(t, y)) * (10.0 if case["own_jac"] else (1.0 + base_user if base_user is not None else 1.0))
                err2 = float(np.max(np.abs(J2.reshape(want2.shape) - want2))) if J2.size == want2.size else float("inf")
                if not err2 <= 1e-6 * (float(np.max(np.abs(want2))) + float(np.max(np.abs(f(t, y)))) + 1e-3):
                    viols.append(V("wrapper_value", "a second wrapper around the same function, asked at t={}, is off by {:.3e}{}".format(op[1], err2, hist), "fd:value:second", **attrs))
            elif kind == "call":
                t = np.float64(op[1])
                y = np.asarray(op[2], dtype=np.float64).reshape(shape)
                out = w(t, y)
                if not np.array_equal(np.asarray(out), f(t, y)):
                    viols.append(V("call_value", "wrapper(t, y) differs from the wrapped function{}".format(hist), "call", **attrs))
            elif kind == "hook":
                w.hook_jacobian_call(users[op[1]])
                model_user = op[1]
                hooked = True
                hooks += 1
            elif kind == "assign":
                w.jac = users[op[1]]
                model_user = op[1]
                hooked = True
                hooks += 1
            elif kind == "unhook":
                w.unhook_jacobian_call()
                model_user = base_user
                hooked = False
                hooks += 1
            elif kind == "raw_attach":
                target.jac = users[op[1]]
                base_user = op[1]
                if not hooked:
                    model_user = op[1]
                hooks += 1
            elif kind == "order":
                w.set_jac_base_order(op[1])
        except Exception as e:
            if exc_origin(e)[0] == "harness":
                raise
            viols.append(V("wrapper_raised", "op {} {} raised {!r}{}".format(i, op[:2], e, hist), "raised:" + exc_sig(e), **attrs))
            break
        if viols:
            break
    nontrivial = len(times) >= 2 and hooks >= 1
    labels = ["wrapper:own_jac" if case["own_jac"] else "wrapper:plain_rhs", "wrapper:shape{}d".format(len(shape))] + (["wrapper:times_in_one_array_updated_in_place"] if case.get("time_buffer") else [])
    labels += ["op:" + k for k in sorted(set(o[0] for o in case["ops"]))]
    return viols, dict(nontrivial=nontrivial, labels=labels)


def check(case):
    return _check_fd(case) if case["part"] == "fd" else _check_wrapper(case)
