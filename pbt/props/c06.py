"""C06 - dense output is a consistent continuous extension of the computed trajectory.

One case = (method of any family, problem (rhs program / linear / manufactured), span in either direction, dt,
history in {one call, two calls, three calls}); dense output on. Query times: every recorded time, per step one point
1 ulp inside each end and 3 interior points; scalar queries, one array query of all points, a 2-D shaped query.
 Oracle 1  sol(t_k) == y_k bit for bit (tolerance level for Richardson wrappers);  system[t] == sol(t).
 Oracle 2  (tableau and splitting methods) for t strictly inside step k the answer equals, to 1e-12 relative, the
           harness' own cubic Hermite through (t_k, y_k, f(t_k, y_k)), (t_k+1, y_k+1, f(t_k+1, y_k+1)) with f the user's
           function: decides "answered by the piece of the containing step" and "end slopes equal the right-hand side
           at the recorded states" in one comparison, for any f.
 Oracle 3  (problems with exact solution) |sol(t) - y*(t)| <= 2 x error of the neighbouring grid points + h x slope error + Hermite term 8 h^4/384 rate^4 (|y| + 1), judged where h x rate <= 0.5.
 Oracle 4  structure: as many pieces as steps, piece end times = recorded times (as a set, strictly increasing list),
           scalar and array queries agree elementwise, result shape = query.shape + state.shape; sol is None with
           dense output off.
"""
import math

import numpy as np
from hypothesis import strategies as st

from pbt import methods as M
from pbt import oracles as O
from pbt import problems as PR
from pbt import traj
from pbt.core import V, Part, exc_sig, exc_origin

ID = "C06"
LEVEL = "exploration"
RULE = ("Hypothesis-generated (method, problem, span, dt, 1..3 calls). Distinct = SHA-1 of the case JSON. Non-trivial = "
        "(backward, or a splitting method, or >= 2 calls) and at least one interior query was checked.")
ASSUMPTIONS = ["reference Hermite evaluated in longdouble from the recorded samples and the user's rhs",
               "oracle 2 tolerance 1e-12 x (|y| + |h f|) (cubic through identical data: rounding only)",
               "Richardson wrappers: pieces are sub-step pieces, judged by oracle 1 (tolerance) and oracle 3 only"]


@st.composite
def _case(draw):
    method = draw(traj.method_name(weights=[4, 4, 3, 2, 1, 2]))
    fam = M.family(M.get(method))
    slow = fam in ("implicit_fixed", "implicit_embedded", "richardson")
    t0, tf = draw(traj.span(max_len=4.0))
    L = abs(tf - t0)
    kind = draw(st.sampled_from(["prog", "lin", "man"]))
    if fam == "splitting" or (method.startswith("Rich") and "ABAs" in method):
        kind = "sep"
    if kind == "prog":
        prob = draw(PR.prog_params(shapes=[[1], [2], [3], [2, 2]] if not slow else [[1], [2]]))
        for k in ("P", "Q"):   # keep growth moderate over the span
            prob[k] = [[x / max(1.0, L) for x in row] for row in prob[k]]
        y0 = draw(PR.state(prob["shape"]))
    elif kind == "lin":
        prob = draw(PR.lin_params(dims=(1, 2, 3) if not slow else (1, 2), horizon=L))
        y0 = draw(PR.state([len(prob["A"])]))
    elif kind == "sep":
        prob = draw(PR.sep_params(dims=(1, 2) if not slow else (1,)))
        y0 = None
    else:
        prob = draw(PR.man_params(dims=(1, 2) if slow else (1, 2, 3), gscale=0.25))
        y0 = None
    frac = draw(st.sampled_from([1 / 4.0, 1 / 8.0, 1 / 16.0, 0.1, 0.3, 0.05] if slow else [1 / 4.0, 1 / 8.0, 1 / 16.0, 1 / 64.0, 0.1, 0.3, 0.02, 2.0]))
    tol = draw(st.sampled_from([1e-4, 1e-6, 1e-8]))
    ncalls = draw(st.sampled_from([1, 1, 2, 3]))
    cuts = sorted(draw(st.lists(st.sampled_from([0.25, 0.5, 0.6, 0.75]), min_size=ncalls - 1, max_size=ncalls - 1, unique=True)))
    return dict(part="dense", method=method, dtype="float64", prob=prob, y0=y0, t0=t0, tf=tf, dt=L * frac * draw(st.sampled_from([1.0, -1.0])),
                rtol=tol, atol=tol, dense=True, cuts=cuts, qfrac=draw(st.lists(st.floats(0.05, 0.95), min_size=3, max_size=3)),
                # a time event (terminal: the step is rolled back and re-integrated up to it; or not) watched by the first call that
                # reaches it, and the order in which the recorded times are queried afterwards (the very first query after the run
                # may be anywhere)
                event_at=draw(st.sampled_from([None, None, 0.37, 0.61, 0.83])), event_terminal=draw(st.booleans()),
                qorder=draw(st.sampled_from(["forward", "backward", "last_first", "last_interior_first"])),
                # the right-hand side writes into ONE preallocated array and hands that same array back on every call
                reuse_buffer=draw(st.sampled_from([False, False, False, True])),
                # before the judged run: a run over the declared span with one lookup in its dense output, reset(), and the span
                # mirrored about t0 - the judged run goes the other way on the same object
                reset_mirror=draw(st.sampled_from([False, False, False, False, True])))


RICH_FACTOR = 1000.0   # Richardson pieces are the un-extrapolated sub-steps: observed up to 110 x tolerance (worst_observed in the evidence)


@st.composite
def _constants(draw):
    """y' = k R y with the constant k edited IN PLACE (system.constants['k'] = ...) between integrate() calls and / or by a
    callback in the middle of a call: the pieces recorded afterwards belong to the new right-hand side"""
    method = draw(traj.method_name(weights=[4, 4, 3, 2, 1, 2]))
    fam = M.family(M.get(method))
    slow = fam in ("implicit_fixed", "implicit_embedded", "richardson")
    t0, tf = draw(traj.span(max_len=3.0))
    if abs(tf - t0) > 6.0:
        # (the "backward to zero" class of spans can be hundreds of time units long: runs of this part carry no step cap)
        tf = t0 + (3.0 if tf > t0 else -3.0)
    L = abs(tf - t0)
    frac = draw(st.sampled_from([1 / 8.0, 1 / 16.0, 0.1, 0.3] if slow else [1 / 8.0, 1 / 16.0, 1 / 32.0, 0.1, 0.3]))
    w = draw(st.sampled_from([1.0, 0.5, 2.0])) / max(1.0, L)
    cuts = sorted(draw(st.lists(st.sampled_from([0.25, 0.5, 0.7]), min_size=1, max_size=2, unique=True)))
    ks = [draw(st.sampled_from([1.0, 3.0, -2.0, 0.25])) for _ in range(len(cuts) + 1)]
    return dict(part="constants", method=method, dtype="float64", w=w, damp=draw(st.sampled_from([0.0, -0.5])) if fam != "splitting" else 0.0,
                y0=[draw(st.sampled_from([1.0, -0.5, 2.0])), draw(st.sampled_from([0.0, 1.0, -0.75]))], t0=t0, tf=tf, dt=L * frac,
                rtol=1e-6, atol=1e-6, cuts=cuts, ks=ks,
                # (runs without a callback carry no step cap: the slow families always get the callback variant)
                cb_at=draw(st.sampled_from([None, None, 1, 2, 3] if not slow else [1, 2, 3])), cb_k=draw(st.sampled_from([2.0, -1.0, 0.5])),
                # the constant is an ndarray held in the constants dict and CHANGED IN PLACE (k[...] = new: same dict, same array
                # object) instead of being reassigned
                karray=draw(st.sampled_from([False, False, True])))


def parts(tier):
    q = tier == "quick"
    return [Part("dense", strategy=_case(), examples=700 if q else 15000, timeout=300),
            Part("constants", strategy=_constants(), examples=300 if q else 6000, timeout=120)]


def _check_constants(case):
    import desolver as de
    method = case["method"]
    fam = M.family(M.get(method))
    attrs = dict(method=method, family=fam)
    backward = case["tf"] < case["t0"]
    labels = ["constants:" + fam, "backward" if backward else "forward"]
    R = np.array([[case["damp"], case["w"]], [-case["w"], case["damp"]]])

    def rhs(t, y, k=1.0, **kw):
        return k * (R @ y)
    consts = dict(k=case["ks"][0] if not case.get("karray") else np.array(case["ks"][0], dtype=np.float64))
    if case.get("karray"):
        labels.append("constant_is_an_array_changed_in_place")

    def set_k(system, value):
        if case.get("karray"):
            system.constants["k"][...] = value
        else:
            system.constants["k"] = value
    a = de.OdeSystem(rhs, y0=np.array(case["y0"], dtype=np.float64), t=(case["t0"], case["tf"]), dense_output=True, dt=case["dt"],
                     rtol=case["rtol"], atol=case["atol"], constants=consts)
    a.method = M.get(method)
    k_of_step = []       # the constant in force while step i was taken

    def cb(system):
        while len(k_of_step) < len(system) - 1:
            k_of_step.append(float(system.constants["k"]) if not cb_state["pending"] else cb_state["old"])
        cb_state["pending"] = False
        cb_state["n"] += 1
        if case["cb_at"] is not None and cb_state["n"] == case["cb_at"]:
            set_k(system, case["cb_k"])          # edited in place, in the middle of a call
            labels.append("constant_changed_in_callback")
    cb_state = dict(n=0, pending=False, old=None)
    span = case["tf"] - case["t0"]
    targets = [case["t0"] + c * span for c in case["cuts"]] + [None]
    for j, tg in enumerate(targets):
        set_k(a, case["ks"][j])
        # (a callback is attached only when it is to change the constant: the library treats "after a callback" separately)
        # (and then the run has no callback at all, not even the harness' step cap: the case watchdog bounds it)
        err = traj.run_integrate(a, tg, step_limit=(len(a) + (200 if fam in ("implicit_fixed", "implicit_embedded", "richardson") else 1500)) if case["cb_at"] is not None else None,
                                 callbacks=[cb] if case["cb_at"] is not None else [])
        if err is None and case["cb_at"] is None:
            while len(k_of_step) < len(a) - 1:
                k_of_step.append(float(case["ks"][j]))
        if isinstance(err, traj.StepCap):
            return [], dict(nontrivial=False, labels=labels + ["capped"])
        if err is not None:
            if isinstance(err.__cause__, de.exception_types.FailedToMeetTolerances):
                return [], dict(nontrivial=False, labels=labels + ["reported_failure"])
            return [V("integrate_raised", "{} raised {!r} caused by {!r}".format(method, err, err.__cause__), fam + exc_sig(err), **attrs)], dict(nontrivial=False, labels=labels)
    t = np.asarray(a.t, dtype=np.float64)
    y = np.asarray(a.y, dtype=np.float64)
    N = len(t) - 1
    if len(k_of_step) != N or not np.all(np.isfinite(y)) or float(np.max(np.abs(y))) > 1e6:
        return [], dict(nontrivial=False, labels=labels + ["skipped:bookkeeping" if len(k_of_step) != N else "unstable_run"])
    viols = []
    sol = a.sol
    changes = sum(1 for i in range(1, N) if k_of_step[i] != k_of_step[i - 1])
    scale = float(np.max(np.abs(y))) * (abs(case["w"]) + abs(case["damp"])) * max(abs(k) for k in k_of_step)
    for i in range(N):
        h = t[i + 1] - t[i]
        k = k_of_step[i]
        for (tq, yq, side) in ((t[i] + 1e-7 * h, y[i], "start"), (t[i + 1] - 1e-7 * h, y[i + 1], "end")):
            got = np.asarray(sol.grad(np.float64(tq)), dtype=np.float64)
            want = k * (R @ yq)
            # (1e-7 of the step away from the node: the slope of a cubic piece moves by <= 6e-7 x (slope scale + increment / h))
            allowed = 1e-5 * (scale + float(np.max(np.abs(y[i + 1] - y[i]))) / abs(h)) + 1e-12
            if not float(np.max(np.abs(got - want))) <= allowed:
                viols.append(V("piece_slope_of_old_rhs", "{}: step {} of {} [{!r}, {!r}] was taken with k = {} but the {} slope of its dense piece is {} (k R y = {}; with the previous k = {}: {})".format(
                    method, i, N, float(t[i]), float(t[i + 1]), k, side, got.tolist(), want.tolist(), k_of_step[i - 1] if i else None, (k_of_step[i - 1] * (R @ yq)).tolist() if i else None),
                    fam, direction="backward" if backward else "forward", **attrs))
                break
        if viols:
            break
        got_node = np.asarray(sol(np.float64(t[i + 1])), dtype=np.float64)
        if not np.array_equal(got_node, y[i + 1]):
            viols.append(V("node_value", "{}: sol(t[{}]) differs from the recorded state by {:.3e}".format(method, i + 1, float(np.max(np.abs(got_node - y[i + 1])))), fam, **attrs))
            break
    return viols, dict(nontrivial=bool(changes >= 1), labels=labels, counts=dict(recorded_steps=N, constant_changes_inside_the_record=changes))


def check(case):
    if case["part"] == "constants":
        return _check_constants(case)
    import desolver as de
    method = case["method"]
    fam = M.family(M.get(method))
    rich = False     # (since fix 3f44fc1 Richardson wrappers provide one Hermite piece per step and are judged like every other method)
    attrs = dict(method=method, family=fam)
    t0, tf = case["t0"], case["tf"]
    backward = tf < t0
    labels = ["family:" + fam, "prob:" + case["prob"]["kind"], "backward" if backward else "forward", "calls:{}".format(len(case["cuts"]) + 1)]
    viols = []
    wrapper = None
    if case.get("reuse_buffer"):
        labels.append("rhs_hands_back_one_preallocated_array")
        store = {}

        def wrapper(inner):
            def rhs(t, y, **kw):
                out = np.asarray(inner(t, y, **kw))
                buf = store.setdefault((out.shape, out.dtype.str), np.empty_like(out))
                buf[...] = out
                return buf
            return rhs
    try:
        a, f, y0 = traj.make_system(case, rhs_wrapper=wrapper, hide_jac=bool(wrapper))
    except Exception as e:
        if exc_origin(e)[0] == "harness":
            raise
        return [V("construction_raised", "{!r}".format(e), fam + exc_sig(e), **attrs)], dict(nontrivial=False, labels=labels)
    if case.get("reset_mirror") and case["prob"]["kind"] in ("prog", "lin"):
        err0 = traj.run_integrate(a, None, step_limit=len(a) + (300 if fam in ("implicit_fixed", "implicit_embedded", "richardson") else 2500))
        if err0 is None and len(a) >= 2 and np.all(np.isfinite(np.asarray(a.y))):
            try:
                a.sol(np.float64(0.5 * (float(a.t[0]) + float(a.t[1]))))
                a.reset()
                a.tf = t0 - (tf - t0)
            except Exception as e:
                if exc_origin(e)[0] == "harness":
                    raise
                return [V("query_raised", "lookup / reset() / tf assignment after a first run raised {!r}".format(e), fam + exc_sig(e), **attrs)], dict(nontrivial=False, labels=labels)
            tf = t0 - (tf - t0)
            backward = tf < t0
            case = dict(case, tf=tf)
            labels.append("reset_and_rerun_the_other_way")
        else:
            return [], dict(nontrivial=False, labels=labels + ["first_run_not_completed"])
    targets = [t0 + c * (tf - t0) for c in case["cuts"]] + [None]
    last_scalar = None      # (time, value) of the last scalar query made before the next call
    event_used = False
    pending = list(targets)
    while pending:
        tg = pending.pop(0)
        if last_scalar is not None and a.sol is not None:
            # the first query after a continuation repeats, bit for bit, the last query before it: the step that contains
            # that time has not changed (a lookup memo that survives the insertion of new pieces would answer from another)
            again = np.asarray(a.sol(np.float64(last_scalar[0])), dtype=np.float64)
            if not np.array_equal(again, last_scalar[1]):
                return [V("query_changed_by_continuation", "sol({!r}) was {} before the continuing call and is {} after it (difference {:.3e})".format(
                    last_scalar[0], last_scalar[1].tolist(), again.tolist(), float(np.max(np.abs(again - last_scalar[1])))), fam, direction="backward" if backward else "forward", **attrs)], dict(nontrivial=False, labels=labels)
            last_scalar = None
        if len(a) > 2 and a.sol is not None and np.all(np.isfinite(np.asarray(a.y))):
            # queries made between calls (array-shaped ones fill the lookup cache) must not disturb later ones
            tq = np.asarray(a.t, dtype=np.float64)
            mids = 0.5 * (tq[:-1] + tq[1:])
            try:
                early = np.asarray(a.sol(mids), dtype=np.float64)
                for i in ((0, len(mids) - 1, (len(mids) - 1) // 2) if case.get("qorder", "forward") == "forward" else (len(mids) - 1, (len(mids) - 1) // 2, 0)):
                    sc = np.asarray(a.sol(np.float64(mids[i])), dtype=np.float64)
                    if not np.array_equal(early[i], sc):
                        return [V("array_vs_scalar", "between two calls sol(array)[{}] differs from sol(scalar) at t={!r}".format(i, float(mids[i])), fam, direction="backward" if backward else "forward", **attrs)], dict(nontrivial=False, labels=labels)
                    last_scalar = (float(mids[i]), sc.copy())
            except Exception as e:
                if exc_origin(e)[0] == "harness":
                    raise
                return [V("query_raised", "sol(array) between two calls raised {!r}".format(e), fam + exc_sig(e), **attrs)], dict(nontrivial=False, labels=labels)
        evs = None
        if case.get("event_at") is not None and not event_used:
            te_ = t0 + case["event_at"] * (tf - t0)
            cur_, goal_ = float(a.t[-1]), float(tf if tg is None else tg)
            if (cur_ - te_) * (goal_ - te_) < 0:
                def time_event(t, y, _te=te_, **kw):
                    return t - _te
                time_event.is_terminal = bool(case.get("event_terminal"))
                evs = [time_event]
                event_used = True
                labels.append("terminal_event_in_the_run" if case.get("event_terminal") else "event_in_the_run")
        err = traj.run_integrate(a, tg, step_limit=len(a) + (300 if fam in ("implicit_fixed", "implicit_embedded", "richardson") else 2500), events=evs)
        if err is None and evs is not None and case.get("event_terminal"):
            pending.insert(0, tg)       # (the call stopped by the terminal event is followed by one that goes on to the same target)
        if isinstance(err, traj.StepCap):
            return [], dict(nontrivial=False, labels=labels + ["capped"])
        if err is not None:
            cause = err.__cause__
            if isinstance(cause, de.exception_types.FailedToMeetTolerances):
                return [], dict(nontrivial=False, labels=labels + ["reported_failure"])
            return [V("integrate_raised", "{} raised {!r} caused by {!r}".format(method, err, cause), fam + exc_sig(err), **attrs)], dict(nontrivial=False, labels=labels)
    sol = a.sol
    t = np.asarray(a.t, dtype=np.float64)
    y = np.asarray(a.y, dtype=np.float64)
    if not np.all(np.isfinite(y)) or float(np.max(np.abs(y))) > 1e6:
        return [], dict(nontrivial=False, labels=labels + ["unstable_run"])   # step size beyond the method's stability limit
    N = len(t) - 1
    shape = y.shape[1:]
    if sol is None:
        return [V("sol_missing", "dense_output=True but system.sol is None", fam, **attrs)], dict(nontrivial=False, labels=labels)
    tol_unit = case["atol"] + case["rtol"] * float(np.max(np.abs(y)))
    tol_rich = RICH_FACTOR * tol_unit
    rich_worst = 0.0
    # ---- oracle 4: structure
    te = [float(x) for x in sol.t_eval]
    if not rich:
        if len(te) != N or len(sol.y_interpolants) != N:
            viols.append(V("piece_count", "{} pieces / {} piece times for {} recorded steps".format(len(sol.y_interpolants), len(te), N), fam, **attrs))
        elif sorted(te) != sorted(t[1:].tolist()):
            viols.append(V("piece_times", "piece end times are not the recorded times: first mismatch {}".format(
                next(((u, v) for u, v in zip(sorted(te), sorted(t[1:].tolist())) if u != v), None)), fam, **attrs))
    # (not demanded of wrappers: the sub-steps of a rounding-size final step coincide or fall 1 ulp short of the
    #  previous key; the value oracles below decide whether lookups still work)
    if not rich and any(b <= a_ for a_, b in zip(te, te[1:])):
        viols.append(V("piece_order", "sol.t_eval is not strictly increasing: {}".format(te[:6]), fam, **attrs))
    if viols:
        return viols, dict(nontrivial=False, labels=labels)

    def query(tt):
        return np.asarray(sol(np.float64(tt)), dtype=np.float64)

    # ---- oracle 1: grid points
    try:
        qorder = case.get("qorder", "forward")
        order = list(range(N + 1))
        if qorder == "backward":
            order = order[::-1]
        elif qorder == "last_first":
            order = [N] + order[:-1]
        elif qorder == "last_interior_first" and N >= 1:
            query(t[N - 1] + 0.75 * (t[N] - t[N - 1]))      # (judged below with every other interior point; here it is the first query)
        labels.append("first_queries:" + qorder)
        for k in order:
            got = query(t[k])
            if got.shape != shape:
                viols.append(V("query_shape", "sol(t) has shape {} for a state of shape {}".format(got.shape, shape), fam, **attrs))
                break
            bad = (not np.array_equal(got, y[k])) if not rich else (not float(np.max(np.abs(got - y[k]))) <= tol_rich)
            if rich:
                rich_worst = max(rich_worst, float(np.max(np.abs(got - y[k]))) / tol_unit)
            if bad:
                viols.append(V("grid_point", "{}: sol(t[{}]={!r}) differs from the recorded state by {:.3e} ({} of {} steps, {})".format(
                    method, k, float(t[k]), float(np.max(np.abs(got - y[k]))), k, N, "backward" if backward else "forward"), fam, direction="backward" if backward else "forward", **attrs))
                break
            got2 = np.asarray(a[np.float64(t[k])].y, dtype=np.float64)
            if not np.array_equal(got2, got):
                viols.append(V("getitem_vs_sol", "system[t] differs from sol(t) at t[{}]".format(k), fam, **attrs))
                break
        # what a query hands out belongs to the caller: modifying it in place (y = sol(t); y += ...) must not change what the
        # next query at the same time returns, nor the recorded trajectory
        if not viols:
            for k in sorted(set([0, N // 2, N])):
                first = sol(np.float64(t[k]))
                before = np.array(first, dtype=np.float64, copy=True)
                if isinstance(first, np.ndarray):
                    first += 1.0
                    again = query(t[k])
                    if not np.array_equal(again, before) or not np.array_equal(np.asarray(a.y, dtype=np.float64)[k], y[k]):
                        viols.append(V("query_result_aliases_dense_output", "{}: after `v = sol(t[{}]); v += 1` the same query returns values changed by {:.3e} (recorded state changed by {:.3e})".format(
                            method, k, float(np.max(np.abs(again - before))), float(np.max(np.abs(np.asarray(a.y, dtype=np.float64)[k] - y[k])))), fam, **attrs))
                        break
    except Exception as e:
        if exc_origin(e)[0] == "harness":
            raise
        viols.append(V("query_raised", "sol(t) raised {!r}".format(e), fam + exc_sig(e), **attrs))
    if viols:
        return viols, dict(nontrivial=False, labels=labels)
    # ---- oracle 2 / 3: interior points
    exact = None
    if case["prob"]["kind"] == "lin":
        exact = lambda tt: f.exact(tt, t0, y0)
    elif case["prob"]["kind"] in ("man", "sep"):
        exact = lambda tt: np.asarray(f.exact(tt, np.longdouble), dtype=np.float64)
    steps = range(N) if N <= 60 else sorted(set(np.linspace(0, N - 1, 60).astype(int).tolist()))
    qs = []
    worst2 = 0.0
    interior = 0
    F = {}

    def rhs_at(k):
        if k not in F:
            F[k] = np.asarray(f(np.float64(t[k]), y[k].copy()), dtype=np.float64)
        return F[k]
    ymax = float(np.max(np.abs(y))) + 1e-300
    if exact is not None:
        rate = f.lipschitz() + (f.max_freq() if hasattr(f, "max_freq") else 0.0)
        amp = f.amplification(tf - t0) if case["prob"]["kind"] == "lin" else math.exp(min(f.lipschitz() * abs(tf - t0), 3.0))
        gbound = (RICH_FACTOR if rich else 60.0) * (case["atol"] + case["rtol"] * ymax) * amp * math.sqrt(max(N, 1))
        gbound = None   # the interior error is bounded through the measured error of the two neighbouring grid points
    for k in steps:
        ta, tb = t[k], t[k + 1]
        pts = [np.nextafter(ta, tb), np.nextafter(tb, ta)] + [ta + q * (tb - ta) for q in case["qfrac"]]
        for tt in pts:
            if tt == ta or tt == tb:
                continue
            qs.append(tt)
            got = query(tt)
            interior += 1
            if not rich:
                ref = np.asarray(O.hermite(ta, tb, y[k], y[k + 1], rhs_at(k), rhs_at(k + 1), tt), dtype=np.float64)
                scale = max(float(np.max(np.abs(y[k]))), float(np.max(np.abs(y[k + 1]))), abs(tb - ta) * max(float(np.max(np.abs(rhs_at(k)))), float(np.max(np.abs(rhs_at(k + 1))))), 1e-300)
                d = float(np.max(np.abs(got - ref)))
                worst2 = max(worst2, d / (1e-12 * scale))
                if not d <= 1e-12 * scale:
                    viols.append(V("interior_piece", "{}: sol({!r}) inside step {} of {} ([{!r}, {!r}], {}) differs from the cubic Hermite through the recorded end states and the rhs there by {:.3e} (relative {:.3e})".format(
                        method, float(tt), k, N, float(ta), float(tb), "backward" if backward else "forward", d, d / scale), fam, direction="backward" if backward else "forward", **attrs))
                    break
            if exact is not None and not rich and abs(tb - ta) * rate <= 0.5:
                # (wrappers: pieces belong to the un-extrapolated finest level, judged by oracle 1 only;
                #  steps with h x rate > 0.5: the Hermite term dominates, no information)
                ex = exact(tt)
                h = abs(tb - ta)
                herm = 8 * h ** 4 / 384.0 * (rate ** 4) * (float(np.max(np.abs(ex))) + 1.0)
                if gbound is not None:
                    bound = gbound + herm
                else:
                    grid_err = max(float(np.max(np.abs(y[k] - exact(ta)))), float(np.max(np.abs(y[k + 1] - exact(tb)))))
                    slope_err = h * max(float(np.max(np.abs(rhs_at(k) - f(np.float64(ta), np.asarray(exact(ta), dtype=np.float64))))),
                                        float(np.max(np.abs(rhs_at(k + 1) - f(np.float64(tb), np.asarray(exact(tb), dtype=np.float64))))))
                    bound = 2 * grid_err + slope_err + herm + 1e-12 * ymax
                d = float(np.max(np.abs(got - ex)))
                if not d <= bound:
                    viols.append(V("interior_accuracy", "{}: |sol(t) - exact| = {:.3e} at t={!r} inside step {} (h={:.3e}); allowed {:.3e}".format(
                        method, d, float(tt), k, h, bound), fam, direction="backward" if backward else "forward", **attrs))
                    break
        if viols:
            break
    # ---- oracle 4 (queries): array and shaped queries agree with scalar ones
    if not viols and qs:
        qarr = np.asarray(qs[:24], dtype=np.float64)
        try:
            arr = np.asarray(sol(qarr), dtype=np.float64)
            if arr.shape != qarr.shape + shape:
                viols.append(V("array_query_shape", "sol(array of shape {}) has shape {}; expected {}".format(qarr.shape, arr.shape, qarr.shape + shape), fam, **attrs))
            else:
                for i, tt in enumerate(qarr):
                    if not np.array_equal(arr[i], query(tt)):
                        viols.append(V("array_vs_scalar", "sol(array)[{}] differs from sol({!r}) by {:.3e}".format(i, float(tt), float(np.max(np.abs(arr[i] - query(tt))))), fam, direction="backward" if backward else "forward", **attrs))
                        break
            if len(qarr) >= 4 and not viols:
                q2 = qarr[:(len(qarr) // 2) * 2].reshape(2, -1)
                arr2 = np.asarray(sol(q2), dtype=np.float64)
                if arr2.shape != q2.shape + shape or not np.array_equal(arr2.reshape((-1,) + shape), arr[:q2.size]):
                    viols.append(V("array_query_shape", "2-D query of shape {} gives shape {} / values differing from the flat query".format(q2.shape, arr2.shape), fam, **attrs))
            # whole-numbered times inside the range, asked for as an integer array (sol(np.arange(...)))
            lo, hi = int(np.ceil(min(t[0], t[-1]))), int(np.floor(max(t[0], t[-1])))
            if not viols and hi - lo >= 1 and hi - lo <= 4000 and a.t[0].dtype == np.float64:
                qi = np.unique(np.linspace(lo, hi, min(hi - lo + 1, 16)).astype(np.int64))
                arri = np.asarray(sol(qi), dtype=np.float64)
                labels.append("integer_query_array")
                for i, tt in enumerate(qi):
                    if arri.shape != qi.shape + shape or not np.array_equal(arri[i], query(float(tt))):
                        viols.append(V("array_vs_scalar", "sol(int64 array)[{}] differs from sol({!r}) (shape {})".format(i, float(tt), arri.shape), fam, direction="backward" if backward else "forward", query="int", **attrs))
                        break
        except Exception as e:
            if exc_origin(e)[0] == "harness":
                raise
            viols.append(V("query_raised", "sol(array) raised {!r}".format(e), fam + exc_sig(e), **attrs))
    nontrivial = bool((backward or fam == "splitting" or len(case["cuts"]) >= 1) and interior > 0)
    return viols, dict(nontrivial=nontrivial, labels=labels, counts=dict(interior_queries=interior, recorded_steps=N), metrics={"hermite_mismatch/allowed": worst2, "richardson_grid_mismatch/tol": rich_worst if rich else None})
