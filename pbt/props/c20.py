"""C20 - evaluation counters and callbacks are exact.

Case = (method of any family, small rhs program, user Jacobian or finite differences, span of either direction, dt,
0..2 time events (terminal or not), dense output on/off, optional one-shot fault in the rhs, a short history:
integrate -> [integrate again after a failure] -> [reset -> integrate]).
Oracles, checked after every call:
  nfev == number of COMPLETED calls of the user's rhs since construction / the last reset (the user function counts
          itself, incrementing after it returns; the constructor's probe call is included);
  njev == number of Jacobian requests (counted by wrapping DiffRHS.jac at class level inside the check process) and,
          with a user Jacobian attached, == number of invocations of the user's function;
  callbacks [c1, c2, c3]: invoked in that order; at each invocation len(system), t[-1], y[-1] already show the new step;
          len(system) grows by exactly one between consecutive rounds and the number of rounds equals the number of
          recorded steps - except that the single round following a terminal event may see a growth >= 1 (the landing
          sub-steps share it; 0 when the event coincides with the sample already recorded) and then t[-1] is the event time;
  a callback that assigns dt = d_k: an explicit fixed-step method takes |t_k+1 - t_k| == |d_k| next (or the clamped
          final step). Limiter-style callbacks (dt = dt, dt = min(dt, cap)) run on every family: whatever the last
          round assigned is what system.dt holds when the call returns, terminal event or not.
"""
import math

import numpy as np
from hypothesis import strategies as st

from pbt import methods as M
from pbt import problems as PR
from pbt import traj
from pbt.core import V, Part, exc_sig, exc_origin

ID = "C20"
LEVEL = "exploration"
RULE = ("Hypothesis-generated (method, rhs program, Jacobian source, span, dt, events, dense, fault position, history). Distinct = "
        "SHA-1 of the case JSON. Non-trivial = a run with a rejected step (adaptive method, large initial dt), an event rollback, "
        "an implicit method, a fault or a reset.")
ASSUMPTIONS = ["Jacobian requests are counted by wrapping desolver.differential_system.DiffRHS.jac in the check process (no source hook)"]


class Boom(Exception):
    pass


@st.composite
def _case(draw):
    method = draw(traj.method_name(weights=[4, 4, 2, 3, 1, 2]))
    fam = M.family(M.get(method))
    slow = fam in ("implicit_fixed", "implicit_embedded", "richardson")
    prob = draw(PR.prog_params(shapes=[[2]] if (slow or fam == "splitting") else [[1], [2], [3], [2, 2]]))
    for k in ("P", "Q"):
        prob[k] = [[x / 2.0 for x in row] for row in prob[k]]
    t0 = draw(st.sampled_from([0.0, 1.0, -3.0, 20.0]))
    L = draw(st.sampled_from([1.0, 0.5, 2.0]))
    direction = draw(st.sampled_from([1.0, 1.0, -1.0]))
    frac = draw(st.sampled_from([1 / 4.0, 1 / 8.0, 0.1, 0.3, 1.0] if slow else [1 / 4.0, 1 / 8.0, 1 / 16.0, 0.1, 0.3, 1.0, 0.03]))
    nev = draw(st.integers(0, 2))
    # (0.93, 0.97: inside the clipped final step of most runs)
    events = [dict(frac=draw(st.sampled_from([0.3, 0.5, 0.55, 0.8, 0.93, 0.97, 0.0])), terminal=draw(st.booleans())) for _ in range(nev)]
    return dict(part="counters", method=method, dtype="float64", prob=prob, y0=draw(PR.state(prob["shape"])), t0=t0, tf=t0 + direction * L,
                dt=L * frac, rtol=draw(st.sampled_from([1e-4, 1e-7])), atol=1e-7, dense=draw(st.booleans()), user_jac=draw(st.booleans()),
                events=events, fault_at=draw(st.sampled_from([None, None, None, 3, 7, 12, 25])), reset_after=draw(st.booleans()),
                set_dt=draw(st.sampled_from([None, None, 0.5, 0.25, "keep", "cap"])),
                prewrap=draw(st.sampled_from(["none", "none", "none", "wrapped", "wrapped_jac", "second_system"])),
                # after the run: direct Jacobian requests interleaved with hooking / unhooking a Jacobian and changing the
                # finite-difference order - none of which is a request, none of which resets a counter
                hook_dance=draw(st.lists(st.sampled_from(["request", "request", "unhook", "hook", "set_order"]), min_size=0, max_size=5)),
                # between the phases ANOTHER system is built on the same right-hand-side object, run and reset: the counters of a
                # system are its own
                intruder=draw(st.sampled_from([False, False, True])))


def parts(tier):
    q = tier == "quick"
    return [Part("counters", strategy=_case(), examples=1200 if q else 15000, timeout=300)]


def check(case):
    import desolver as de
    from desolver import differential_system as ds
    method = case["method"]
    fam = M.family(M.get(method))
    attrs = dict(method=method, family=fam)
    backward = case["tf"] < case["t0"]
    labels = ["family:" + fam, "jac:user" if case["user_jac"] else "jac:fd", "events:{}".format(len(case["events"])), "dense:on" if case["dense"] else "dense:off",
              "backward" if backward else "forward"]
    f = PR.Prog(case["prob"])
    shape = f.shape
    cnt = dict(rhs=0, ujac=0, jac_requests=0, fault_armed=case["fault_at"])

    class RHS(object):
        def __call__(self, t, y, **kw):
            if cnt["fault_armed"] is not None and cnt["rhs"] + 1 == cnt["fault_armed"]:
                cnt["fault_armed"] = None
                raise Boom("injected fault in the rhs")
            out = f(t, y)
            cnt["rhs"] += 1          # completed call
            return out
    rhs = RHS()
    if case["user_jac"]:
        def ujac(t, y, **kw):
            cnt["ujac"] += 1
            return f.jac(t, y)
        rhs.jac = ujac
    orig_jac = ds.DiffRHS.jac

    def counting_jac(self, t, y, *a, **k):
        out = orig_jac(self, t, y, *a, **k)
        cnt["jac_requests"] += 1
        return out
    ds.DiffRHS.jac = counting_jac
    viols = []
    sig = fam
    base = dict(rhs=0, jac_requests=0, ujac=0)
    try:
        try:
            y0 = np.asarray(case["y0"], dtype=np.float64).reshape(shape)
            rhs_in = rhs
            pre = case.get("prewrap", "none")
            if pre != "none":
                # the system is handed an already wrapped right-hand side (OdeSystem copies it): pristine, after a Jacobian
                # request of the user's own at t0, or taken from another system that has already run with it
                rhs_in = de.DiffRHS(rhs)
                if pre == "wrapped_jac":
                    rhs_in.jac(np.float64(case["t0"]), y0.copy())
                elif pre == "second_system":
                    first = de.OdeSystem(rhs_in, y0=y0.copy(), t=(case["t0"], case["tf"]), dt=case["dt"], rtol=case["rtol"], atol=case["atol"])
                    first.method = M.get(method)
                    armed, cnt["fault_armed"] = cnt["fault_armed"], None
                    traj.run_integrate(first, np.float64(case["t0"] + 0.25 * (case["tf"] - case["t0"])), step_limit=400)
                    cnt["fault_armed"] = armed if armed is None else armed + cnt["rhs"]
                    rhs_in = first.equ_rhs
                labels.append("prewrapped:" + pre)
            base.update(rhs=cnt["rhs"], jac_requests=cnt["jac_requests"], ujac=cnt["ujac"])
            a = de.OdeSystem(rhs_in, y0=y0, t=(case["t0"], case["tf"]), dense_output=case["dense"], dt=case["dt"], rtol=case["rtol"], atol=case["atol"])
            a.method = M.get(method)
        except de.exception_types.FailedIntegration:
            return [], dict(nontrivial=False, labels=labels + ["fault_in_constructor"])
        except Boom:
            return [], dict(nontrivial=False, labels=labels + ["fault_in_constructor"])

        def counters(where):
            out = []
            if a.nfev != cnt["rhs"] - base["rhs"]:
                out.append(V("nfev", "{}: nfev = {} but the user's rhs completed {} calls since the system was constructed ({}{})".format(
                    method, a.nfev, cnt["rhs"] - base["rhs"], where, "; right-hand side handed over " + case.get("prewrap", "none") if case.get("prewrap", "none") != "none" else ""), sig, **attrs))
            if a.njev != cnt["jac_requests"] - base["jac_requests"]:
                out.append(V("njev", "{}: njev = {} but {} Jacobian requests were made ({})".format(method, a.njev, cnt["jac_requests"] - base["jac_requests"], where), sig, **attrs))
            if case["user_jac"] and cnt["ujac"] != cnt["jac_requests"] and not cnt.get("dance"):
                out.append(V("user_jacobian_calls", "{}: {} Jacobian requests but the attached user Jacobian ran {} times ({})".format(method, cnt["jac_requests"], cnt["ujac"], where), sig, **attrs))
            return out
        viols += counters("after construction")
        L = abs(case["tf"] - case["t0"])
        evs = []
        for e in case["events"]:
            tc = case["t0"] + e["frac"] * (case["tf"] - case["t0"])

            def g(t, y, _tc=tc, **kw):
                cnt["event_calls"] = cnt.get("event_calls", 0) + 1
                return t - _tc
            g.is_terminal = e["terminal"]
            evs.append(g)
        rounds = []          # per callback round: (len, t_last)
        ev_seen = []         # event-function calls made so far, per round
        order = []
        cb_viol = []
        dt_assigned = {}
        last_assigned = [None]

        def make_cb(i):
            def cb(system):
                order.append(i)
                if i == 0:
                    n = len(system)
                    tl = float(system.t[-1])
                    if len(np.asarray(system.y)) != n or len(np.asarray(system.t)) != n:
                        cb_viol.append("inside a callback len(system)={} but len(t)={} len(y)={}".format(n, len(system.t), len(system.y)))
                    rounds.append((n, tl))
                    ev_seen.append(cnt.get("event_calls", 0))
                    if case["set_dt"] in ("keep", "cap"):
                        # limiter / clip style callbacks: the value assigned may equal the current one
                        cur = float(system.dt)
                        system.dt = cur if case["set_dt"] == "keep" else math.copysign(min(abs(cur), 0.4 * abs(case["dt"])), cur)
                        last_assigned[0] = abs(float(system.dt))
                    elif case["set_dt"] is not None and fam in ("explicit_fixed", "splitting"):
                        d = case["dt"] * case["set_dt"] * (1 + (len(rounds) % 3))
                        system.dt = d
                        dt_assigned[n] = abs(float(system.dt))
                        last_assigned[0] = abs(float(system.dt))
            return cb
        cbs = [make_cb(0), make_cb(1), make_cb(2)]
        phases = ["first"]
        if case["fault_at"] is not None:
            phases.append("after_failure")
        if case["reset_after"]:
            phases.append("after_reset")
        terminal_hit = False
        rejected = False
        for phase in phases:
            if phase == "after_reset":
                a.reset()
                cnt["rhs"] = 0
                base["rhs"] = 0
                # reset() zeroes nfev only (the property speaks of "since construction or the last reset" for the
                # function-evaluation counter); njev keeps counting requests
                viols += counters("after reset()")
                if a.nfev != 0:
                    viols.append(V("nfev_reset", "nfev = {} after reset()".format(a.nfev), sig, **attrs))
            n0 = len(a)
            rounds.clear(); order.clear(); dt_assigned.clear(); ev_seen.clear()
            last_assigned[0] = None
            ev_base = cnt.get("event_calls", 0)
            status_before = a.integration_status
            err = traj.run_integrate(a, None, step_limit=len(a) + (300 if fam in ("implicit_fixed", "implicit_embedded", "richardson") else 2000), events=evs or None, callbacks=cbs, injected=(Boom,))
            if isinstance(err, traj.StepCap):
                labels.append("capped")
                break
            failed = err is not None
            if failed:
                cause = err.__cause__
                if isinstance(cause, Boom):
                    labels.append("fault_injected")
                elif isinstance(cause, de.exception_types.FailedToMeetTolerances):
                    labels.append("reported_failure")
                else:
                    viols.append(V("integrate_raised", "{} raised {!r} caused by {!r}".format(method, err, cause), sig + exc_sig(err), **attrs))
                    break
            viols += counters("after integrate ({})".format(phase))
            if case.get("intruder") and phase == "first" and not viols:
                mine = (a.nfev, a.njev)
                before_ = dict(cnt)
                armed, cnt["fault_armed"] = cnt.get("fault_armed"), None
                try:
                    other = de.OdeSystem(rhs_in, y0=np.asarray(case["y0"], dtype=np.float64).reshape(shape), t=(case["t0"], case["tf"]), dt=case["dt"], rtol=case["rtol"], atol=case["atol"])
                    other.method = M.get(method)
                    traj.run_integrate(other, np.float64(case["t0"] + 0.3 * (case["tf"] - case["t0"])), step_limit=200)
                    other.reset()
                    another = de.OdeSystem(rhs_in, y0=np.asarray(case["y0"], dtype=np.float64).reshape(shape), t=(case["t0"], case["tf"]), dt=case["dt"], rtol=case["rtol"], atol=case["atol"])
                    del another
                finally:
                    cnt["fault_armed"] = armed if armed is None else armed + (cnt["rhs"] - before_["rhs"])
                labels.append("another_system_on_the_same_rhs_object")
                if (a.nfev, a.njev) != mine:
                    viols.append(V("nfev", "{}: nfev / njev went from {} to {} while ANOTHER system built on the same right-hand-side object was constructed, run and reset".format(
                        method, mine, (a.nfev, a.njev)), sig + ":shared", **attrs))
                # (what the other systems did is not this system's: move the baselines of the harness' own counters)
                base["rhs"] += cnt["rhs"] - before_["rhs"]
                base["jac_requests"] += cnt["jac_requests"] - before_["jac_requests"]
                base["ujac"] = base.get("ujac", 0) + cnt["ujac"] - before_["ujac"]
            # ---- callbacks
            if cb_viol:
                viols.append(V("callback_state", cb_viol[0], sig, **attrs))
            if order != [0, 1, 2] * (len(order) // 3) or len(order) % 3 not in (0,) and not failed:
                viols.append(V("callback_order", "callbacks ran in the order {} (expected rounds of [0, 1, 2])".format(order[:12]), sig, **attrs))
            stopped = "terminated upon finding a triggered event" in a.integration_status
            terminal_hit |= stopped
            t = np.asarray(a.t, dtype=np.float64)
            prev = n0
            for r_i, (n, tl) in enumerate(rounds):
                growth = n - prev
                last_round = r_i == len(rounds) - 1
                if growth != 1 and not (stopped and last_round and growth >= 1):
                    viols.append(V("callback_per_step", "{}: between callback rounds {} and {} the trajectory grew by {} samples (from {} to {}){}".format(
                        method, r_i - 1, r_i, growth, prev, n, "; run stopped on a terminal event" if stopped else ""), sig, **attrs))
                    break
                if n <= len(t) and tl != t[n - 1]:
                    viols.append(V("callback_sees_old_state", "{}: in callback round {} t[-1] was {!r} but sample {} of the final trajectory is {!r}".format(method, r_i, tl, n - 1, float(t[n - 1])), sig, **attrs))
                    break
                prev = n
            # with events monitored every loop iteration examines them before its callbacks run: a round that is not preceded
            # by event evaluations belongs to no examined step (e.g. callbacks fired inside the landing re-integration)
            if evs and rounds:
                prev_e = ev_base
                for r_i, e_now in enumerate(ev_seen):
                    if e_now == prev_e:
                        viols.append(V("callback_extra_round", "{}: callback round {} of {} ran without the events having been examined since the previous round (samples then: {}, final: {})".format(
                            method, r_i, len(rounds), rounds[r_i][0], len(a)), sig, **attrs))
                        break
                    prev_e = e_now
            if not failed and rounds and rounds[-1][0] != len(a):
                viols.append(V("callback_count", "{}: {} recorded samples but the last callback round saw {}".format(method, len(a), rounds[-1][0]), sig, **attrs))
            if not failed and not rounds and len(a) > n0:
                viols.append(V("callback_count", "{}: {} steps recorded but no callback ran".format(method, len(a) - n0), sig, **attrs))
            # ---- the step size the last callback round assigned is what the system holds when the call returns (nothing
            #      runs after the callbacks of the last step - terminal event or not - that may replace it)
            if not failed and last_assigned[0] is not None and abs(float(a.dt)) != last_assigned[0]:
                viols.append(V("callback_dt_replaced", "{}: the last callback round assigned |dt| = {!r} but after the call ({}) system.dt = {!r}".format(
                    method, last_assigned[0], "stopped on a terminal event" if stopped else "reached its target", float(a.dt)), sig, stopped=bool(stopped), **attrs))
            # ---- dt assigned by a callback is the next step (explicit fixed-step methods)
            if dt_assigned and not evs:
                eps = float(np.finfo(np.float64).eps)
                for n, d in dt_assigned.items():
                    if n < len(t):
                        took = abs(t[n] - t[n - 1])
                        remaining = abs(case["tf"] - t[n - 1])
                        want = min(d, remaining)
                        if abs(took - want) > 64 * eps * max(1.0, abs(case["t0"]), abs(case["tf"])):
                            viols.append(V("callback_dt_not_used", "{}: a callback set dt={!r} after sample {} but the next step had length {!r} (remaining span {!r})".format(
                                method, d, n - 1, float(took), float(remaining)), sig, **attrs))
                            break
            if fam in ("embedded", "implicit_embedded", "richardson") and abs(case["dt"]) >= 0.3 * L:
                rejected = True
            if viols:
                break
            if phase == "first" and not failed and "after_failure" in phases:
                phases.remove("after_failure")
        if not viols and case.get("hook_dance"):
            cnt["dance"] = True
            r = a.equ_rhs
            tq, yq = np.float64(a.t[-1]), np.asarray(a.y[-1]).copy()

            def hooked(t, y, **kw):
                return f.jac(t, y)
            armed, cnt["fault_armed"] = cnt["fault_armed"], None
            for i_op, op in enumerate(case["hook_dance"]):
                if op == "request":
                    r.jac(tq, yq + 0.0625 * i_op)
                elif op == "unhook":
                    r.unhook_jacobian_call()
                elif op == "hook":
                    r.hook_jacobian_call(hooked)
                else:
                    r.set_jac_base_order(4)
                viols += counters("after the run, step {} ({}) of the sequence {}".format(i_op, op, case["hook_dance"]))
                if viols:
                    break
            cnt["fault_armed"] = armed
            labels.append("jacobian_hook_sequence")
    finally:
        ds.DiffRHS.jac = orig_jac
    nontrivial = bool(rejected or terminal_hit or fam.startswith("implicit") or "fault_injected" in labels or case["reset_after"])
    return viols, dict(nontrivial=nontrivial, labels=labels, counts=dict(rhs_calls=cnt["rhs"], jacobian_requests=cnt["jac_requests"]))
