"""C07 - reported events are genuine, correctly located, ordered and unique.

Problems with exact trajectories (y' = const on exact binary grids, rotation, decay); 1..6 event functions
g = s (h - c) (state component, linear functional, time, product of time factors, derivative component), any scale,
direction -1/0/+1, non-terminal; all method families, both directions, dense output on and off.
For every record (t_e, y_e, g):
 (1) y_e equals the dense solution at t_e (dense on) / the harness' cubic Hermite of the containing step (dense off)
 (2) |g(t_e, y_e)| <= 1e-7 |s| G max(1, |t|)            (G = natural scale of h)
 (3) a per-step callback snapshots len(events): records added during step k lie inside [t_k, t_k+1]
 (4) t_e is within (2 x measured grid error + Hermite term) x L_g / |dg/dt| of a true crossing of g along the exact
     trajectory, and no two records of one function coincide in time (uniqueness)
 (5) along the recorded trajectory (harness Hermite piece of the containing step) g crosses at t_e with the sign of
     d g / d tau (tau = direction of integration) that `direction` asks for
 (6) records are sorted by sign(dt) x t
Part `near_boundary`: y' = const, fixed-step methods with LONG steps (1 .. 100), time / state events whose crossing lies
0.5 .. 1e4 probe widths (eps^0.75 x step) before or after a step boundary, incl. just before t0 and just beyond tf.
"""
import math

import numpy as np

from pbt import events as EV
from pbt import evrun
from pbt import methods as M
from pbt import oracles as O
from pbt import traj
from pbt.core import V, Part, exc_sig, exc_origin

ID = "C07"
LEVEL = "exploration"
RULE = ("Hypothesis-generated (method, exactly solvable problem, span, dt, tolerance, dense on/off, 1..6 event functions). "
        "Distinct = SHA-1 of the case JSON. Non-trivial = a run with >= 2 records, or a crossing on a step boundary, or backward, "
        "or an event scale |s| != 1.")
ASSUMPTIONS = ["true crossings are located by the harness on the closed-form trajectory (4000-point scan + bisection)",
               "location bound: (2 x measured grid error + 8 h^4/384 rate^4 scale + 64 eps scale) x L_g / |dg/dt| + 64 eps max(1,|t|)"]


from hypothesis import strategies as st


@st.composite
def _near_boundary(draw):
    """y' = const with a fixed-step method and LONG steps (2 .. 100): time / state events whose crossing lies a few probe
    widths (multiples of eps^0.75 x step) before or after a step boundary - incl. just before t0 and just beyond tf, where
    no event exists. The step that does not contain the root must not report it, the one that does must report it once."""
    method = draw(st.sampled_from(["RK4Solver", "EulerSolver", "MidpointSolver", "RK5Solver", "HeunsSolver"]))
    h = draw(st.sampled_from([2.0, 8.0, 25.0, 100.0, 1.0]))
    N = draw(st.integers(2, 4))
    sgn = draw(st.sampled_from([1.0, 1.0, -1.0]))
    t0 = draw(st.sampled_from([0.0, -50.0, 8.0]))
    tf = t0 + sgn * N * h
    unit = (4 * np.finfo(np.float64).eps) ** 0.75 * h      # the probe width of the direction test, in time units
    evs = []
    for _ in range(draw(st.integers(1, 3))):
        k = draw(st.integers(0, N))
        m = draw(st.sampled_from([0.5, 1.5, 2.5, 2.9, 6.0, 100.0, 1e4])) * draw(st.sampled_from([1.0, -1.0]))
        tc = t0 + sgn * k * h + m * unit
        kind = draw(st.sampled_from(["time", "time", "comp"]))
        p = dict(h=kind, s=draw(st.sampled_from([1.0, 1.0, 1e3, 1e-3, -1.0])), direction=draw(st.sampled_from([0, 0, 1, -1])), terminal=False)
        if kind == "comp":
            p["i"] = 0
            p["c"] = 0.25 + 1.0 * (tc - t0)      # y_0(t) = 0.25 + (t - t0)
        else:
            p["c"] = tc
        evs.append(p)
    return dict(part="near_boundary", method=method, dtype="float64", prob=dict(kind="const", y0=[0.25, -1.0], v=[1.0, 0.5]), t0=t0, tf=tf,
                dt=h * draw(st.sampled_from([1.0, -1.0])), rtol=1e-6, atol=1e-6, dense=draw(st.booleans()), events=evs)


@st.composite
def _junctions(draw):
    """the span is covered by two or three integrate() calls (all with the events monitored) and crossings lie exactly on, or a
    few ulps beside, the junction times: each crossing is recorded once, whichever call finds it"""
    method = draw(st.sampled_from(["RK4Solver", "EulerSolver", "MidpointSolver", "RK45CKSolver", "DOPRI45", "ImplicitMidpoint", "HeunsSolver"]))
    t0 = draw(st.sampled_from([0.0, 8.0, -50.0, 100.0]))
    h = draw(st.sampled_from([1 / 16.0, 1 / 4.0]))
    N = draw(st.integers(4, 8))
    sgn = draw(st.sampled_from([1.0, 1.0, -1.0]))
    tf = t0 + sgn * N * h
    ks = sorted(set(draw(st.lists(st.integers(1, N - 1), min_size=1, max_size=2))))
    evs = []
    bound = draw(st.sampled_from([False, False, True]))
    for _ in range(draw(st.integers(1, 3))):
        k = draw(st.sampled_from(ks + ks + [draw(st.integers(1, N - 1))]))
        tj = t0 + sgn * k * h
        m = draw(st.sampled_from([0, 0, 0, 1, -1, 4]))
        kind = draw(st.sampled_from(["time", "comp"]))
        # (a bound method cannot carry the direction / is_terminal attributes: such events cross in either direction)
        p = dict(h=kind, s=draw(st.sampled_from([1.0, 1e3, 1e-3, -1.0])), direction=draw(st.sampled_from([0, 0, 1, -1])) if not bound else 0, terminal=False)
        c = np.float64((0.25 + (tj - t0)) if kind == "comp" else tj)
        for _i in range(abs(m) if abs(float(c)) >= 1e-3 else 0):      # (next to 0 the neighbours are subnormal: not a meaningful threshold)
            c = np.nextafter(c, np.float64(np.sign(m) * np.inf))
        p["c"] = float(c)
        if kind == "comp":
            p["i"] = 0
        evs.append(p)
    return dict(part="junctions", method=method, dtype="float64", prob=dict(kind="const", y0=[0.25, -1.0], v=[1.0, 0.5]), t0=t0, tf=tf, dt=h,
                rtol=1e-6, atol=1e-6, dense=draw(st.booleans()), events=evs, pre_targets=[t0 + sgn * k * h for k in ks],
                dir_after=[draw(st.sampled_from([None, None, 1, -1, 0])) for _ in evs] if not bound else [None for _ in evs],
                # the event functions are handed over as bound methods (`events=[watcher.crossed]`): every call of integrate()
                # then receives NEW objects for the same functions (attribute access creates a bound method each time)
                as_bound_methods=bound)


def parts(tier):
    q = tier == "quick"
    return [Part("events", strategy=evrun.event_case("events", terminal_mode="none"), examples=700 if q else 15000, timeout=300),
            Part("near_boundary", strategy=_near_boundary(), examples=400 if q else 8000, timeout=300),
            Part("tiny_steps", strategy=_tiny_steps(), examples=200 if q else 4000, timeout=300),
            Part("multi_crossing", strategy=_multi_crossing(), examples=200 if q else 4000, timeout=300),
            Part("junctions", strategy=_junctions(), examples=300 if q else 6000, timeout=300),
            Part("short_steps_deriv", strategy=_short_steps_deriv(), examples=200 if q else 4000, timeout=300)]


@st.composite
def _short_steps_deriv(draw):
    """derivative-dependent events on steps of 1e-4: the change of g over a direction probe (3e-8 of the step) is ~1e-12, the
    size of the rounding noise of a carelessly summed Hermite derivative (eps |y| / h)"""
    method = draw(st.sampled_from(["RK4Solver", "RK5Solver", "MidpointSolver", "RK45CKSolver"]))
    t0 = draw(st.sampled_from([0.0, 100.0, -7.0]))
    h = 2.0 ** -13
    N = draw(st.integers(16, 40))
    sgn = draw(st.sampled_from([1.0, 1.0, -1.0]))
    tf = t0 + sgn * N * h
    prob = draw(EV.exact_problem(kinds=("decay", "rot")))
    P = EV.ExactProblem(prob, t0)
    evs = []
    for _ in range(draw(st.integers(1, 2))):
        frac = draw(st.sampled_from([0.31, 0.52, 0.77, 0.9]))
        tc = t0 + frac * (tf - t0)
        p = dict(h="deriv", s=draw(st.sampled_from([1.0, -1.0, 10.0])), direction=draw(st.sampled_from([1, -1, 0])), terminal=False, i=draw(st.integers(0, P.n - 1)))
        p["c"] = EV.Event(dict(p, c=0.0)).h(tc, P.exact(tc), P.dexact(tc))
        evs.append(p)
    return dict(part="short_steps_deriv", method=method, dtype="float64", prob=prob, t0=t0, tf=tf, dt=h, rtol=1e-5, atol=1e-5,
                dense=draw(st.booleans()), events=evs)


def _multi_crossing():
    """3 or 5 crossings of one event function inside one step (the generator of C08's part of the same name): whichever of
    them is reported must be genuine, inside its step and compatible with the requested direction"""
    from pbt.props import c08
    return c08._multi_crossing().map(lambda c: dict(c, part="multi_crossing"))


def _tiny_steps():
    """steps of 2^10 .. 2^23 ulps of t far from t = 0 (the generator of C08's part of the same name): every direction probe
    lands on the root's own floating-point number; events with direction +1 / -1 in both directions of time"""
    from pbt.props import c08
    return c08._tiny_steps().map(lambda c: dict(c, part="tiny_steps"))


def check(case):
    import desolver as de
    method = case["method"]
    fam = M.family(M.get(method))
    rich = False     # (since fix 3f44fc1 Richardson wrappers provide one Hermite piece per step and are judged like every other method)
    attrs = dict(method=method, family=fam, dense=bool(case["dense"]))
    backward = case["tf"] < case["t0"]
    sgn = -1.0 if backward else 1.0
    labels = ["family:" + fam, "dense:on" if case["dense"] else "dense:off", "backward" if backward else "forward", "events:{}".format(len(case["events"]))]
    try:
        r = evrun.run(case)
    except Exception as e:
        if exc_origin(e)[0] == "harness":
            raise
        return [V("construction_raised", "{!r}".format(e), fam + exc_sig(e), **attrs)], dict(nontrivial=False, labels=labels)
    if isinstance(r.err, traj.StepCap):
        return [], dict(nontrivial=False, labels=labels + ["capped"])
    if r.err is not None:
        cause = r.err.__cause__
        if isinstance(cause, de.exception_types.FailedToMeetTolerances) and fam in ("implicit_fixed", "implicit_embedded", "richardson"):
            return [], dict(nontrivial=False, labels=labels + ["reported_failure"])
        return [V("integrate_raised", "{} with events raised {!r} caused by {!r}".format(method, r.err, cause), fam + exc_sig(r.err), **attrs)], dict(nontrivial=False, labels=labels)
    a, P = r.a, r.P
    t = np.asarray(a.t, dtype=np.float64)
    y = np.asarray(a.y, dtype=np.float64)
    N = len(t) - 1
    eps = float(np.finfo(np.float64).eps)
    viols = []
    recs = list(a.events)
    sig = "{}:{}".format(fam, "dense" if case["dense"] else "nodense")
    grid_err = max(float(np.max(np.abs(y[k] - P.exact(t[k])))) for k in range(N + 1))
    hmax = float(np.max(np.abs(np.diff(t)))) if N else 0.0
    rate, scale = P.rate(), P.scale()
    herm = 8 * hmax ** 4 / 384.0 * rate ** 4 * scale if P.kind != "const" else 0.0
    if rich:
        herm += 1000 * (case["atol"] + case["rtol"] * scale)      # wrapper pieces: un-extrapolated sub-steps (see C06)
    yerr = 2 * grid_err + herm + 64 * eps * scale * max(1.0, abs(case["t0"]), abs(case["tf"]))
    # error of the recorded increments per unit time: limits the slope of a Hermite piece (derivative events)
    incr_err = max([float(np.max(np.abs((y[k + 1] - y[k]) - (P.exact(t[k + 1]) - P.exact(t[k]))))) / abs(t[k + 1] - t[k]) for k in range(N)] + [0.0])
    # (6) order
    te_all = [float(rec.t) for rec in recs]
    if any(sgn * (b - a_) < 0 for a_, b in zip(te_all, te_all[1:])):
        viols.append(V("order", "{}: event records are not in the order met along the integration ({}): times {}".format(method, "backward" if backward else "forward", te_all[:8]), sig, **attrs))
    # (3) step containment through the callback snapshots
    prev_n, prev_e = 1, 0
    for (n_sys, n_ev, t_now) in r.snaps:
        for rec in recs[prev_e:n_ev]:
            lo, hi = min(t[prev_n - 1], t[n_sys - 1]), max(t[prev_n - 1], t[n_sys - 1])
            if not (lo - 8 * eps * max(1, abs(lo)) <= float(rec.t) <= hi + 8 * eps * max(1, abs(hi))):
                viols.append(V("outside_step", "{}: event at t={!r} was recorded during the step [{!r}, {!r}]".format(method, float(rec.t), float(t[prev_n - 1]), float(t[n_sys - 1])), sig, **attrs))
                break
        prev_n, prev_e = n_sys, n_ev
    byfun = {}
    for rec in recs:
        byfun.setdefault(id(getattr(rec.event, "__self__", rec.event)), []).append(rec)
    boundary = False
    for j, ev in enumerate(r.evs):
        mine = byfun.get(id(ev), [])
        truth = EV.true_crossings(ev, P, case["t0"], case["tf"]) if mine else []
        G = ev.natural_scale(P)
        if mine:
            gmax = max(abs(ev.g_exact(P, tt)) for tt in np.linspace(case["t0"], case["tf"], 200))
            if gmax <= 1e-9 * abs(ev.s) * G:
                labels.append("degenerate_event_function")     # g vanishes identically along the trajectory: nothing to judge
                continue                                       # (the scan for true crossings then only sees rounding noise)
        used = {}
        for rec in mine:
            te = float(rec.t)
            ye = np.asarray(rec.y, dtype=np.float64)
            # containing step
            k = None
            for kk in range(N):
                lo, hi = min(t[kk], t[kk + 1]), max(t[kk], t[kk + 1])
                if lo <= te <= hi:
                    k = kk
                    break
            if k is None:
                viols.append(V("outside_range", "{}: event at t={!r} outside the integrated range".format(method, te), sig, **attrs))
                break
            if te == t[k] or te == t[k + 1]:
                boundary = True
            # (1) state of the record
            if case["dense"]:
                ref = np.asarray(a.sol(np.float64(te)), dtype=np.float64)
                ok1 = np.array_equal(ref, ye)
                d1 = float(np.max(np.abs(ref - ye)))
            elif rich:
                ok1, d1 = True, 0.0     # wrapper with dense output off: its sub-step pieces are not observable
            else:
                fk = np.asarray(P(t[k], y[k]), dtype=np.float64)
                fk1 = np.asarray(P(t[k + 1], y[k + 1]), dtype=np.float64)
                ref = np.asarray(O.hermite(t[k], t[k + 1], y[k], y[k + 1], fk, fk1, te), dtype=np.float64)
                d1 = float(np.max(np.abs(ref - ye)))
                tol1 = 1e-11 * (scale + float(np.max(np.abs(ye)))) if not rich else 1000 * (case["atol"] + case["rtol"] * scale)
                ok1 = d1 <= tol1
            if not ok1:
                viols.append(V("event_state", "{} (dense {}): the state stored with the event at t={!r} differs from the {} there by {:.3e}".format(
                    method, "on" if case["dense"] else "off", te, "dense solution" if case["dense"] else "Hermite piece of the containing step", d1), sig, **attrs))
                break
            # (2) residual
            dy = np.asarray(P(te, ye), dtype=np.float64) if ev.kind == "deriv" else None
            gres = abs(ev.s * (ev.h(te, ye, dy) - ev.c))
            if ev.kind == "deriv" and case["dense"]:
                gres = abs(float(np.asarray(ev(te, ye, a.sol.grad(np.float64(te)))).reshape(())))
            allowed2 = 1e-7 * abs(ev.s) * G * max(1.0, abs(te))
            if rich:
                allowed2 += abs(ev.s) * max(ev.grad_norm(), rate) * 1000 * (case["atol"] + case["rtol"] * scale)   # sub-step pieces, see C06
            if ev.kind == "deriv":
                allowed2 += abs(ev.s) * (rate * yerr + 8 * hmax ** 3 / 72.0 * rate ** 4 * scale + 4 * incr_err)   # slope of the Hermite piece vs the rhs
            if not gres <= allowed2:
                viols.append(V("event_residual", "{}: |g| = {:.3e} at the reported event (t={!r}) of #{} {}; allowed {:.3e}".format(method, gres, te, j, ev.p, allowed2), sig, scale=abs(ev.s), **attrs))
                break
            # (4) location against the true crossings, (5) direction, uniqueness
            if not truth:
                viols.append(V("spurious_event", "{}: event of #{} {} reported at t={!r} but g has no sign change along the exact trajectory".format(method, j, ev.p, te), sig, **attrs))
                break
            cand = min(range(len(truth)), key=lambda i: abs(truth[i][0] - te))
            t_true, s_true, slope = truth[cand]
            Lg = abs(ev.s) * (ev.grad_norm() if ev.kind in ("comp", "lin") else (rate if ev.kind == "deriv" else 0.0))
            derr = abs(ev.s) * (8 * hmax ** 3 / 125.0 * rate ** 4 * scale + 4 * incr_err) if ev.kind == "deriv" else 0.0   # slope error of a Hermite piece
            allowed4 = 2 * (Lg * yerr + derr) / max(slope, 1e-300) + 64 * eps * max(1.0, abs(te), abs(t_true)) + 1e-9 * abs(case["tf"] - case["t0"])
            if grid_err > 1e-2 * scale:
                labels.append("inaccurate_run:location_not_judged")    # step size far beyond the accuracy regime of the method
            elif not abs(te - t_true) <= allowed4 and abs(ev.g_exact(P, te)) <= 2 * (Lg * yerr + derr):
                # along the exact trajectory g comes within the numerical error of zero at the reported time without
                # crossing there (a grazing approach): the computed trajectory may cross where the exact one does not
                labels.append("grazing_within_numerical_error")
            elif not abs(te - t_true) <= allowed4:
                viols.append(V("event_location", "{}: event of #{} {} reported at t={!r}; nearest true crossing at {!r} (off by {:.3e}, allowed {:.3e}; grid error {:.2e}, h {:.2e})".format(
                    method, j, ev.p, te, t_true, abs(te - t_true), allowed4, grid_err, hmax), sig, **attrs))
                break
            # (5) direction: read from the harness' own Hermite piece of the containing step (the recorded trajectory
            #     itself), probing 1e-4 of the step on either side of the record, along the direction of integration
            # (the direction requested when the record was made: an attribute changed between two calls counts from the next call)
            want_dir = ev.direction
            if case.get("dir_after") and case.get("pre_targets"):
                tj1 = case["pre_targets"][0]
                if abs(te - tj1) <= 64 * eps * max(1.0, abs(tj1)):
                    # on the junction itself either call may have made the record: judged only if both requests agree
                    want_dir = ev.direction if getattr(ev, "direction0", ev.direction) == ev.direction else 0
                elif sgn * (te - tj1) < 0:
                    want_dir = getattr(ev, "direction0", ev.direction)
            if want_dir != 0:
                fk = np.asarray(P(t[k], y[k]), dtype=np.float64)
                fk1 = np.asarray(P(t[k + 1], y[k + 1]), dtype=np.float64)
                dstep = 1e-4 * (t[k + 1] - t[k])

                def g_num(tt):
                    yy = np.asarray(O.hermite(t[k], t[k + 1], y[k], y[k + 1], fk, fk1, tt), dtype=np.float64)
                    dd = None
                    if ev.kind == "deriv":
                        dd = np.asarray(O.hermite_deriv(t[k], t[k + 1], y[k], y[k + 1], fk, fk1, tt), dtype=np.float64)
                    return ev.s * (ev.h(tt, yy, dd) - ev.c)
                gb, ga = g_num(te - dstep), g_num(te + dstep)
                if gb * ga < 0 and not rich:
                    s_num = 1 if ga > gb else -1
                    if s_num != want_dir:
                        viols.append(V("event_direction", "{}: event of #{} (direction {}) reported at t={!r} where g along the recorded trajectory goes from {:.3e} to {:.3e} in the direction of integration ({})".format(
                            method, j, want_dir, te, gb, ga, "backward" if backward else "forward"), sig, **attrs))
                        break
            # uniqueness: two records of one function at (numerically) the same time
            dup = [u for u in used.values() if abs(u - te) <= 64 * eps * max(1.0, abs(te)) + 1e-6 * abs(t[k + 1] - t[k])]
            if dup:
                viols.append(V("duplicate_event", "{}: the crossing of #{} {} near t={!r} is reported twice: at {!r} and {!r} (step boundaries {})".format(
                    method, j, ev.p, t_true, dup[0], te, [float(x) for x in t[max(0, k - 1):k + 3]]), sig, **attrs))
                break
            cand = len(used)
            used[cand] = te
        if viols:
            break
    nontrivial = bool(len(recs) >= 2 or boundary or backward or any(abs(e.s) != 1 for e in r.evs)) and len(recs) >= 1
    if boundary:
        labels.append("event_on_step_boundary")
    return viols, dict(nontrivial=nontrivial, labels=labels, counts=dict(recorded_events=len(recs)))
