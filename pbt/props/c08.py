"""C08 - no event crossing is missed.

For every pair of consecutive recorded samples and every monitored event function: if g changes sign STRICTLY between
the two samples (evaluated by the harness on the recorded samples, derivative events with the user's rhs there) and
the change is compatible with the requested direction (relative to the direction of integration), then at least one
record of that function lies inside that step. Needs no exact solution; the generated event functions
g = s (h(t, y[, y']) - c) span 12 orders of magnitude in s, are monitored 1..6 at a time, with dense output on and off,
on all method families and both directions, with crossings in step interiors and exactly on step boundaries
(exact binary grids with y' = const). Only non-terminal events are generated here (C09 owns terminal ones).
Part `near_tangent`: g = s (t - r1)(t - r2) with r1, r2 a hair (>= 8 ulp of t and >= 1e-10: outside the library's window
eps^0.7 for "the same event") on either side of a step boundary, at t0 up to 2^24: two strict sign changes in two
consecutive steps, both must be recorded.
"""
import numpy as np
from hypothesis import strategies as st

from pbt import evrun
from pbt import methods as M
from pbt import traj
from pbt.core import V, Part, exc_sig, exc_origin

ID = "C08"
LEVEL = "exploration"
RULE = ("Hypothesis-generated (method, exactly solvable problem, span, dt, tolerance, dense on/off, 1..6 event functions). "
        "Distinct = SHA-1 of the case JSON. Non-trivial = a run with at least one step carrying a strict sign change of a monitored "
        "function and (|s| != 1 or backward or dense off or >= 2 events).")
ASSUMPTIONS = ["sign changes are evaluated on the recorded samples themselves (a.t, a.y), so the oracle is exact whatever the method"]


def parts(tier):
    q = tier == "quick"
    return [Part("missed", strategy=evrun.event_case("missed", terminal_mode="none"), examples=1000 if q else 20000, timeout=300),
            Part("near_tangent", strategy=_near_tangent(), examples=300 if q else 6000, timeout=300),
            Part("tiny_steps", strategy=_tiny_steps(), examples=150 if q else 3000, timeout=300),
            Part("junction", strategy=_junction(), examples=300 if q else 6000, timeout=300),
            Part("multi_crossing", strategy=_multi_crossing(), examples=300 if q else 6000, timeout=300),
            Part("after_terminal", strategy=_after_terminal(), examples=300 if q else 6000, timeout=300),
            Part("ladder", strategy=_ladder(), examples=300 if q else 6000, timeout=300)]


@st.composite
def _ladder(draw):
    """y' = +-rate, one non-terminal event y[0] - constants['lvl'] (an alarm level), and a callback that re-arms the alarm above the
    state whenever the state has passed it (constants edited in place or replaced): right after a re-arming g has the other
    sign than at the end of the step before, and the next level may be crossed in the very next step"""
    method = draw(st.sampled_from(["RK4Solver", "RK45CKSolver", "RK8713MSolver", "EulerSolver", "ImplicitMidpoint", "HeunEulerSolver", "SymplecticEulerSolver", "Rich2:RK4Solver", "DOPRI45"]))
    t0 = draw(st.sampled_from([0.0, -4.0, 10.0]))
    return dict(part="ladder", method=method, t0=t0, sgn=draw(st.sampled_from([1.0, 1.0, -1.0])), L=draw(st.sampled_from([4.0, 8.0])),
                dt=draw(st.sampled_from([0.125, 0.25, 0.3, 0.41])), rate=draw(st.sampled_from([1.0, 0.5, 2.0])), lvl0=draw(st.sampled_from([0.61, 0.137, 1.07])),
                delta=draw(st.sampled_from([0.37, 0.113, 0.29, 0.83])), how=draw(st.sampled_from(["in_place", "in_place", "replace"])),
                direction=draw(st.sampled_from([0, 0, 1])), falling=draw(st.sampled_from([False, False, True])), dense=draw(st.booleans()),
                # ... or the callback leaves the level alone and sets the STATE back below it (system.y[-1][0] -= drop: "manipulating the
                # state of the system" is what the documentation of integrate() names callbacks for): a sawtooth
                mode=draw(st.sampled_from(["rearm_level", "rearm_level", "reset_state"])))


@st.composite
def _junction(draw):
    """the span is covered by two or three integrate() calls and a crossing lies 1 .. 8 ulps (of the event's value) past a
    junction between two calls: the located root rounds onto the junction time although g there still has its old sign"""
    method = draw(st.sampled_from(["RK4Solver", "EulerSolver", "MidpointSolver", "RK45CKSolver", "ImplicitMidpoint", "HeunsSolver"]))
    t0 = draw(st.sampled_from([8.0, 100.0, -50.0, 1000.0, 0.0]))
    h = draw(st.sampled_from([1 / 16.0, 1 / 4.0]))
    N = draw(st.integers(4, 8))
    sgn = draw(st.sampled_from([1.0, 1.0, -1.0]))
    tf = t0 + sgn * N * h
    ks = sorted(set(draw(st.lists(st.integers(1, N - 1), min_size=1, max_size=2))))
    pre = [t0 + sgn * k * h for k in ks]
    evs = []
    for _ in range(draw(st.integers(1, 3))):
        k = draw(st.sampled_from(ks + ks + [draw(st.integers(1, N - 1))]))
        tj = t0 + sgn * k * h
        m = draw(st.sampled_from([1, 1, 2, 8, 0]))
        kind = draw(st.sampled_from(["comp", "comp", "time"]))
        p = dict(h=kind, s=draw(st.sampled_from([1.0, 1e3, 1e-3, -1.0])), direction=draw(st.sampled_from([0, 0, 0, 1, -1])), terminal=False)
        val = (0.25 + (tj - t0)) if kind == "comp" else tj        # y_0(t) = 0.25 + (t - t0); the value moves with sign sgn
        c = np.float64(val)
        for _i in range(m if abs(val) >= 1e-3 else 0):       # (next to 0 the neighbours are subnormal: not a meaningful threshold)
            c = np.nextafter(c, np.float64(sgn * np.inf))
        p["c"] = float(c)
        if kind == "comp":
            p["i"] = 0
        evs.append(p)
    return dict(part="junction", method=method, dtype="float64", prob=dict(kind="const", y0=[0.25, -1.0], v=[1.0, 0.5]), t0=t0, tf=tf, dt=h,
                rtol=1e-6, atol=1e-6, dense=draw(st.booleans()), events=evs, pre_targets=pre)


@st.composite
def _tiny_steps(draw):
    """steps of 2^10 .. 2^23 ulps of t far from t = 0: the direction probes (3e-8 of the step and less) land on the root's own
    floating-point number, so only the sign change over the step itself tells that (and how) g crosses"""
    method = draw(st.sampled_from(["RK4Solver", "EulerSolver", "MidpointSolver", "RK5Solver", "HeunsSolver"]))
    t0 = draw(st.sampled_from([1000.0, -4096.0, 2.0 ** 20, 64.0]))
    ulp = float(np.spacing(abs(t0)))
    h = draw(st.sampled_from([2.0 ** 10, 2.0 ** 18, 2.0 ** 22, 2.0 ** 23])) * ulp
    N = draw(st.integers(20, 60))
    sgn = draw(st.sampled_from([1.0, 1.0, -1.0]))
    tf = t0 + sgn * N * h
    evs = []
    for _ in range(draw(st.integers(1, 3))):
        frac = draw(st.sampled_from([0.51, 0.255, 0.73, 0.9, 0.125]))
        tc = t0 + frac * (tf - t0)
        kind = draw(st.sampled_from(["time", "comp"]))
        p = dict(h=kind, s=draw(st.sampled_from([1.0, 1e3, -1.0, 1e-3])), direction=draw(st.sampled_from([0, 0, 1, -1])), terminal=False)
        if kind == "comp":
            p["i"] = 0
            p["c"] = 0.25 + (tc - t0)
        else:
            p["c"] = tc
        evs.append(p)
    return dict(part="tiny_steps", method=method, dtype="float64", prob=dict(kind="const", y0=[0.25, -1.0], v=[1.0, 0.5]), t0=t0, tf=tf, dt=h,
                rtol=1e-6, atol=1e-6, dense=draw(st.booleans()), events=evs)


@st.composite
def _after_terminal(draw):
    """a call stopped by a terminal time event at tc, then a second call from there that monitors another event whose crossing
    lies a hair (1e-13 .. 1e-6) beyond tc: its sign change sits inside the first step of the resumed call and must be reported
    there, whatever the first call did with that neighbourhood"""
    method = draw(st.sampled_from(["RK4Solver", "EulerSolver", "RK5Solver", "SymplecticEulerSolver", "RK45CKSolver", "RK8713MSolver", "ImplicitMidpoint", "BABs9o7HSolver"]))
    fam = M.family(M.get(method))
    t0 = draw(st.sampled_from([0.0, 1.0, -3.0, 16.0]))
    h = draw(st.sampled_from([1 / 16.0, 1 / 4.0, 1.0]))
    N = draw(st.integers(3, 6))
    sgn = draw(st.sampled_from([1.0, 1.0, -1.0]))
    tf = t0 + sgn * N * h
    k = draw(st.integers(0, N - 2))
    frac = draw(st.sampled_from([0.0, 0.25, 0.5, 0.8125]))
    if k == 0 and frac == 0.0:
        frac = 0.5
    tc = t0 + sgn * (k + frac) * h
    delta = draw(st.sampled_from([1e-13, 1e-12, 3e-11, 1e-9, 1e-6])) * max(1.0, abs(tc))
    s1 = draw(st.sampled_from([1.0, -1.0]))
    s2 = draw(st.sampled_from([1.0, -1.0, 1e3]))
    along = 1 if s2 * sgn > 0 else -1            # direction of ev2's crossing along the direction of integration
    evs = [dict(h="time", s=s1, c=tc, direction=0, terminal=True, ret=draw(st.sampled_from(["0d", "arr1"]))),
           dict(h="time", s=s2, c=tc + sgn * delta, direction=draw(st.sampled_from([0, along])), terminal=False, ret=draw(st.sampled_from(["0d", "float"])))]
    prob = dict(kind="rot", y0=[1.0, 0.0], w=0.5) if fam == "splitting" else dict(kind="const", y0=[0.25, -1.0], v=[1.0, 0.5])
    return dict(part="after_terminal", method=method, dtype="float64", prob=prob, t0=t0, tf=tf, dt=h * draw(st.sampled_from([1.0, -1.0])),
                rtol=1e-6, atol=1e-6, dense=draw(st.booleans()), events=evs, pre_targets=[tf], call_events=[draw(st.sampled_from([[0, 1], [0]])), [1]], judge_events=[1])


@st.composite
def _multi_crossing(draw):
    """g = s prod (t - r_i) / w with 3 or 5 simple roots inside ONE step of a fixed-step run (net sign change over the step,
    inner crossings going the other way): a root finder that lands on an inner root sees a crossing against the requested
    direction although a compatible one lies in the same step"""
    method = draw(st.sampled_from(["RK4Solver", "EulerSolver", "MidpointSolver", "RK5Solver", "HeunsSolver", "SymplecticEulerSolver", "RK45CKSolver", "ImplicitMidpoint"]))
    fam = M.family(M.get(method))
    t0 = draw(st.sampled_from([0.0, 1.0, -3.0, 64.0]))
    h = draw(st.sampled_from([1 / 16.0, 1 / 4.0, 1.0]))
    N = draw(st.integers(2, 6))
    sgn = draw(st.sampled_from([1.0, 1.0, -1.0]))
    tf = t0 + sgn * N * h
    evs = []
    for _ in range(draw(st.integers(1, 3))):
        k = draw(st.integers(0, N - 1))
        nroots = draw(st.sampled_from([3, 3, 5]))
        fr = sorted(draw(st.lists(st.sampled_from([0.08, 0.15, 0.2, 0.3, 0.42, 0.5, 0.55, 0.63, 0.7, 0.8, 0.9, 0.94]), min_size=nroots, max_size=nroots, unique=True)))
        evs.append(dict(h="timeodd", s=draw(st.sampled_from([1.0, -1.0, 1e4, -1e-3])), direction=draw(st.sampled_from([1, -1, 0])), terminal=False,
                        roots=[t0 + sgn * (k + f) * h for f in fr], w=h, c=0.0, ret=draw(st.sampled_from(["0d", "arr1"]))))
    prob = dict(kind="rot", y0=[1.0, 0.0], w=0.5) if fam == "splitting" else dict(kind="const", y0=[0.25, -1.0], v=[1.0, 0.5])
    return dict(part="multi_crossing", method=method, dtype="float64", prob=prob, t0=t0, tf=tf, dt=h * draw(st.sampled_from([1.0, -1.0])),
                rtol=1e-3, atol=1e-3, dense=draw(st.booleans()), events=evs)


@st.composite
def _near_tangent(draw):
    """g = s (t - r1)(t - r2) with the two roots a hair apart (2 delta) on either side of a step boundary, far from t = 0:
    two strict sign changes in two consecutive steps - both must be reported, however close they are in time"""
    method = draw(st.sampled_from(["RK4Solver", "EulerSolver", "MidpointSolver", "RK5Solver", "HeunsSolver", "SymplecticEulerSolver"]))
    fam = M.family(M.get(method))
    t0 = draw(st.sampled_from([2.0 ** 20, -2.0 ** 20, 1024.0, -4096.0, 64.0, 0.0, 2.0 ** 24]))
    h = draw(st.sampled_from([1 / 16.0, 1 / 4.0, 1.0]))
    N = draw(st.integers(3, 8))
    sgn = draw(st.sampled_from([1.0, 1.0, -1.0]))
    tf = t0 + sgn * N * h
    evs = []
    for _ in range(draw(st.integers(1, 2))):
        k = draw(st.integers(1, N - 1))
        tk = t0 + sgn * k * h
        ulp = float(np.spacing(max(abs(t0), abs(tf), 1.0)))
        # resolvable (>= 8 ulp of t) and farther apart than the window eps^0.7 = 2.9e-11 inside which the library treats two
        # records of one function as one (the root on a step boundary, found from both sides)
        delta = max(draw(st.sampled_from([8.0, 64.0, 1024.0, 2.0 ** 14, 2.0 ** 17])) * ulp, draw(st.sampled_from([1e-10, 4e-10, 1e-8])))
        evs.append(dict(h="timeprod", s=draw(st.sampled_from([1.0, 1.0, 1e4, 1e-3, -1.0])), direction=draw(st.sampled_from([0, 0, 0, 1, -1])), terminal=False,
                        r1=tk - delta, r2=tk + delta, c=0.0))
    prob = dict(kind="rot", y0=[1.0, 0.0], w=0.5) if fam == "splitting" else dict(kind="const", y0=[0.25, -1.0], v=[1.0, 0.5])
    return dict(part="near_tangent", method=method, dtype="float64", prob=prob, t0=t0, tf=tf, dt=h * draw(st.sampled_from([1.0, -1.0])),
                rtol=1e-6, atol=1e-6, dense=draw(st.booleans()), events=evs)


def _check_ladder(case):
    import desolver as de
    method = case["method"]
    fam = M.family(M.get(method))
    attrs = dict(method=method, family=fam, dense=bool(case["dense"]))
    t0, sgn, rate = case["t0"], case["sgn"], case["rate"]
    tf = t0 + sgn * case["L"]
    up = -1.0 if case.get("falling") else 1.0          # the state rises (falls) along the integration, whichever way time runs
    two = fam == "splitting"

    def rhs(t, y, **kw):
        return np.array([sgn * up * rate, 0.0]) if two else np.array([sgn * up * rate])

    def alarm(t, y, lvl=0.0, **kw):
        return y[0] - lvl
    alarm.direction = int(case["direction"] * up) if case["direction"] else 0      # (relative to the direction of integration)
    a = de.OdeSystem(rhs, y0=np.array([0.0, 0.0]) if two else np.array([0.0]), t=(t0, tf), dense_output=case["dense"], dt=case["dt"], rtol=1e-8, atol=1e-8,
                     constants=dict(lvl=up * case["lvl0"]))
    a.method = M.get(method)
    pre_edit = {}                                     # the state at the end of each step as the integrator left it, before the callback set it back
    in_force = {0: up * case["lvl0"]}                 # level seen by the examination of the step that STARTS at this sample index

    def rearm(system):
        lvl = system.constants["lvl"]
        yy = float(system.y[-1][0])
        if case.get("mode") == "reset_state":
            pre_edit[len(system) - 1] = yy
            if (yy - lvl) * up >= 0:
                k_ = int((yy - lvl) * up / case["delta"]) + 1
                system.y[-1][0] = yy - up * k_ * case["delta"]
            in_force[len(system) - 1] = lvl
            return
        while (yy - lvl) * up >= 0:
            lvl = lvl + up * case["delta"]
        if lvl != system.constants["lvl"]:
            if case["how"] == "replace":
                system.constants = dict(lvl=lvl)
            else:
                system.constants["lvl"] = lvl
        in_force[len(system) - 1] = lvl
    err = traj.run_integrate(a, None, step_limit=600, events=[alarm], callbacks=[rearm])
    labels = ["ladder:" + (case["how"] if case.get("mode") != "reset_state" else "state_reset_by_callback"), "family:" + fam, "dense:on" if case["dense"] else "dense:off", "backward" if sgn < 0 else "forward", "falling" if case.get("falling") else "rising"]
    if isinstance(err, traj.StepCap):
        return [], dict(nontrivial=False, labels=labels + ["capped"])
    if err is not None:
        return [V("integrate_raised", "{}: raised {!r} caused by {!r}".format(method, err, err.__cause__), fam + exc_sig(err), **attrs)], dict(nontrivial=False, labels=labels)
    t = np.asarray(a.t, dtype=np.float64)
    y = np.asarray(a.y, dtype=np.float64)[:, 0]
    rec_t = np.asarray([float(e.t) for e in a.events], dtype=np.float64)
    viols = []
    crossings = 0
    rearmed_then_crossed = 0
    # (event records add samples of their own: steps are the intervals between consecutive samples; a level is in force from the
    #  callback round that set it until the next round)
    idxs = sorted(in_force)
    for k in range(len(t) - 1):
        j = max(i for i in idxs if i <= k)
        lvl = in_force[j]
        # (the two ends of the accepted step: it starts from the recorded - possibly edited - state and ends where the integrator put it)
        ga, gb = y[k] - lvl, pre_edit.get(k + 1, y[k + 1]) - lvl
        if (ga < 0 < gb) or (gb < 0 < ga):
            crossings += 1
            if j == k and k > 0 and in_force.get(max(i for i in idxs if i < k) if any(i < k for i in idxs) else 0) != lvl:
                rearmed_then_crossed += 1
            lo, hi = min(t[k], t[k + 1]), max(t[k], t[k + 1])
            slack = 1e-9 * max(1.0, abs(lo), abs(hi))
            if not np.any((rec_t >= lo - slack) & (rec_t <= hi + slack)):
                viols.append(V("missed_crossing", "{}: y - lvl goes from {:.4g} to {:.4g} over the recorded step [{!r}, {!r}] (alarm level {!r}, set by the callback at t = {!r}) but no event is recorded there; records at {}".format(
                    method, ga, gb, float(t[k]), float(t[k + 1]), lvl, float(t[j]), rec_t.tolist()[:8]), fam + ":ladder", **attrs))
                break
    if not viols:
        for e in a.events:
            lv = in_force[max(i for i in idxs if float(t[i]) * sgn <= float(e.t) * sgn + 1e-12)] if case.get("mode") != "reset_state" else up * case["lvl0"]
            if abs(float(e.y[0]) - lv) > 1e-9 * max(1.0, abs(lv)) and not any(abs(float(e.y[0]) - v) <= 1e-9 * max(1.0, abs(v)) for v in in_force.values()):
                viols.append(V("record_not_on_the_level", "{}: an event is recorded at t = {!r} with y = {!r}, which is on no alarm level ({!r} in force)".format(method, float(e.t), float(e.y[0]), lv), fam + ":ladder", **attrs))
                break
    return viols, dict(nontrivial=crossings >= 2, labels=labels + (["crossing_in_the_step_after_rearming"] if rearmed_then_crossed else []), counts=dict(sign_changes=crossings))


def check(case):
    if case.get("part") == "ladder":
        return _check_ladder(case)
    import desolver as de
    method = case["method"]
    fam = M.family(M.get(method))
    attrs = dict(method=method, family=fam, dense=bool(case["dense"]))
    backward = case["tf"] < case["t0"]
    labels = ["family:" + fam, "dense:on" if case["dense"] else "dense:off", "backward" if backward else "forward", "events:{}".format(len(case["events"]))]
    try:
        r = evrun.run(case)
    except Exception as e:
        if exc_origin(e)[0] == "harness":
            raise
        return [V("construction_raised", "{!r}".format(e), fam + exc_sig(e), **attrs)], dict(nontrivial=False, labels=labels)
    if isinstance(r.err, traj.StepCap):
        return [], dict(nontrivial=False, labels=labels + ["capped"])
    if r.err is not None:
        cause = r.err.__cause__
        if isinstance(cause, de.exception_types.FailedToMeetTolerances) and fam in ("implicit_fixed", "implicit_embedded", "richardson"):
            return [], dict(nontrivial=False, labels=labels + ["reported_failure"])
        return [V("integrate_raised", "{} with events raised {!r} caused by {!r}".format(method, r.err, cause), fam + exc_sig(r.err), **attrs)], dict(nontrivial=False, labels=labels)
    a = r.a
    t = np.asarray(a.t, dtype=np.float64)
    y = np.asarray(a.y, dtype=np.float64)
    viols = []
    changes = 0
    records = {}
    for rec in a.events:
        records.setdefault(id(getattr(rec.event, "__self__", rec.event)), []).append(float(rec.t))
    for j, ev in enumerate(r.evs):
        if case.get("judge_events") is not None and j not in case["judge_events"]:
            continue
        g = evrun.g_on_samples(ev, r.P, t, y)
        recs = records.get(id(ev), [])
        for k in range(len(t) - 1):
            if g[k] * g[k + 1] < 0:
                up = g[k] < 0          # along the direction of integration (sample k comes first)
                if ev.direction > 0 and not up:
                    continue
                if ev.direction < 0 and up:
                    continue
                changes += 1
                lo, hi = min(t[k], t[k + 1]), max(t[k], t[k + 1])
                if not any(lo <= te <= hi for te in recs):
                    viols.append(V("missed_crossing", "{} (dense {}, {}): event #{} {} changes sign from {:.3e} to {:.3e} over the step [{!r}, {!r}] (step {} of {}) but no event of that function is recorded there (records of it: {})".format(
                        method, "on" if case["dense"] else "off", "backward" if backward else "forward", j, ev.p, g[k], g[k + 1], float(t[k]), float(t[k + 1]), k, len(t) - 1, recs[:6]),
                        "{}:{}".format(fam, "dense" if case["dense"] else "nodense"), scale=abs(ev.s), **attrs))
                    break
        if viols:
            break
    nontrivial = bool(changes and (any(abs(e.s) != 1 for e in r.evs) or backward or not case["dense"] or len(r.evs) >= 2))
    if changes:
        labels.append("has_sign_change")
    if case["part"] == "after_terminal":
        labels.append("first_call_stopped_by_terminal_event" if len(getattr(r, "calls_end", [])) and r.calls_end[0] < len(t) else "first_call_not_stopped")
    return viols, dict(nontrivial=nontrivial, labels=labels, counts=dict(strict_sign_changes=changes, recorded_events=len(a.events)))
