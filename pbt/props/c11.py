"""C11 - implicit methods are unconditionally stable on stiff decay.

Parts
  poles  (enumerated, one case per implicit method) no non-zero eigenvalue of A has real part <= 0 (so the stability
         function has no pole in the closed left half-plane), and |R(i y)| <= 1 on a fixed logarithmic grid of the
         imaginary axis (maximum principle: axis + pole location decide the half-plane).
  table  Hypothesis: batches of z in the closed left half-plane (|z| log-uniform 1e-3..1e8, extra mass on the
         imaginary axis and on the negative real axis): |R(z)| <= 1 + 1e-9, R from the class tableau.
  step   Hypothesis: one call of the integrator on y' = lambda y (real lambda, or the 2x2 rotation-decay block for a
         complex lambda), user Jacobian or finite differences, either sign of h with Re(lambda h) <= 0:
         if the call returns, |y1| <= |y0| (1 + 1e-8) and y1/y0 agrees with R(lambda dT); a reported failure
         (FailedToMeetTolerances) is allowed and counted.
"""
import numpy as np
from hypothesis import strategies as st

from pbt import methods as M
from pbt import traj
from pbt.core import V, Part, exc_sig, exc_origin

ID = "C11"
LEVEL = "exploration"
RULE = ("poles: one enumerated case per implicit method; table: Hypothesis batches of 40 points z per case; step: Hypothesis "
        "(method, lambda, h, tolerance, Jacobian source). Distinct = SHA-1 of the case JSON. Non-trivial = a case containing "
        "|z| >= 10 or a point within 1e-3 rad of the imaginary axis (table), |z| >= 10 and a returned step (step), every poles case.")
ASSUMPTIONS = ["R(z) = 1 + z b^T (I - zA)^-1 1 evaluated in complex128 after row equilibration",
               "agreement of the computed step with R: 10 x newton tolerance x max(1, |dT|) + 1e-9 (calibrated, worst ratio in evidence)"]


def R(A, b, z):
    s = A.shape[0]
    Mx = np.eye(s, dtype=np.complex128) - z * A.astype(np.complex128)
    rhs = np.ones(s, dtype=np.complex128)
    sc = np.max(np.abs(Mx), axis=1)
    x = np.linalg.solve(Mx / sc[:, None], rhs / sc)
    return 1 + z * (b.astype(np.complex128) @ x)


def _poles_cases():
    for name in M.names("implicit"):
        yield dict(part="poles", method=name)


@st.composite
def _zs(draw):
    name = draw(st.sampled_from(M.names("implicit")))
    pts = []
    for _ in range(40):
        mag = 10.0 ** draw(st.floats(-3, 8))
        where = draw(st.sampled_from(["axis+", "axis-", "real", "interior", "near_axis"]))
        if where == "axis+":
            ang = np.pi / 2
        elif where == "axis-":
            ang = 3 * np.pi / 2
        elif where == "real":
            ang = np.pi
        elif where == "near_axis":
            ang = np.pi / 2 + draw(st.floats(0, 1e-3)) if draw(st.booleans()) else 3 * np.pi / 2 - draw(st.floats(0, 1e-3))
        else:
            ang = draw(st.floats(np.pi / 2, 3 * np.pi / 2))
        pts.append([mag, ang, where])
    return dict(part="table", method=name, pts=pts)


@st.composite
def _step(draw):
    name = draw(st.sampled_from(M.names("implicit")))
    zmag = 10.0 ** draw(st.floats(-3, 8))
    kind = draw(st.sampled_from(["real", "complex", "imag"]))
    if kind == "real":
        ang = np.pi
    elif kind == "imag":
        ang = np.pi / 2
    else:
        ang = draw(st.floats(np.pi / 2, np.pi))
    hmag = 10.0 ** draw(st.floats(-3, 1))
    # tiny states / slow rates with long steps (|h lambda| = O(1) while |lambda| |y| is at rounding level): the tolerances scale
    # with the state, so the stage equations still have to be solved relative to it
    yscale = draw(st.sampled_from([1.0, 1.0, 1.0, 1e-6, 1e-12, 1e-20]))
    if yscale != 1.0 and draw(st.booleans()):
        hmag = 10.0 ** draw(st.floats(1, 4))
        zmag = 10.0 ** draw(st.floats(-1, 1.5))
    unit_rate = draw(st.sampled_from([False] * 5 + [True]))
    if unit_rate:
        kind, ang = "real", np.pi
    return dict(part="step", method=name, zmag=zmag, ang=ang, kind=kind, h=hmag * draw(st.sampled_from([1.0, -1.0] if not unit_rate else [1.0, -1.0, -1.0])), yscale=yscale,
                tol=draw(st.sampled_from([1e-6, 1e-9, 1e-12])), user_jac=draw(st.booleans()),
                y0=[draw(st.sampled_from([1.0, -0.5, 2.0, 1e-3])), draw(st.sampled_from([0.0, 1.0, -2.0]))],
                # the judged step continues, on the same integrator object, a step taken with lambda x warm (the constant of
                # the rhs is then changed: new dict or edited in place)
                warm=draw(st.sampled_from([None, None, 40.0, 0.025, 1.0])), inplace=draw(st.booleans()),
                # lambda = -+1 exactly, and for a negative step (lambda = +1) the test equation written as `return y`: the function
                # hands back the array it was given
                unit_rate=unit_rate,
                # the step is handed over as ONE 0-d array: a warm-up step is taken with a tenth of it, the array is scaled in
                # place (h *= 10, what `system.dt *= 10` does) and the judged step gets the same object
                inplace_h=draw(st.sampled_from([False, False, False, True])))


def parts(tier):
    q = tier == "quick"
    return [
        Part("poles", enumerate=_poles_cases, timeout=120, exhaustive=True),
        Part("table", strategy=_zs(), examples=800 if q else 50000, timeout=60),
        Part("step", strategy=_step(), examples=2000 if q else 30000, timeout=300),
        Part("switch", strategy=_switch(), examples=300 if q else 6000, timeout=300),
    ]


@st.composite
def _switch(draw):
    """a system integrated with one method over a whole number of steps, switched to an implicit method without reset(), and
    integrated on with the same dt (optionally across a second switch): whatever the first integrator leaves behind (and what a
    method switch carries over into the new one) must not reach the steps of the second"""
    first = draw(st.sampled_from(["BackwardEuler", "CrankNicolson", "ImplicitMidpoint", "GaussLegendre4", "RK4Solver", "RadauIIA5", "RK45CKSolver"]))
    seconds = draw(st.lists(st.sampled_from(M.names("implicit")), min_size=1, max_size=2))
    h = draw(st.sampled_from([0.125, 0.25, 0.0625])) * draw(st.sampled_from([1.0, -1.0]))
    z = draw(st.sampled_from([0.5, 1.0, 3.0, 8.0, 24.0]))
    return dict(part="switch", first=first, seconds=seconds, h=h, z=z, kind=draw(st.sampled_from(["real", "real", "complex"])), ang=draw(st.sampled_from([2.0, 2.6, 3.0])),
                k=draw(st.integers(1, 4)), m=draw(st.integers(2, 4)), tol=draw(st.sampled_from([1e-6, 1e-9])), t0=draw(st.sampled_from([0.0, 1.0, -2.0])),
                y0=[draw(st.sampled_from([1.0, -0.5, 2.0])), draw(st.sampled_from([0.0, 1.0]))], same_dt=draw(st.sampled_from([True, True, False])))


def _check_poles(case):
    name = case["method"]
    c, A, B = M.tableau(name)
    viols = []
    ev = np.linalg.eigvals(A)
    bad = [complex(e) for e in ev if abs(e) > 1e-12 and e.real <= 1e-12]
    if bad:
        viols.append(V("pole_in_left_half_plane", "{}: A has eigenvalues {} with non-positive real part: R(z) has a pole at 1/lambda in the closed left half-plane".format(name, bad), name, method=name))
    worst = 0.0
    n = 0
    for e10 in np.linspace(-3, 8, 221):
        for sgn in (1, -1):
            r = abs(R(A, B[0], 1j * sgn * 10.0 ** e10))
            worst = max(worst, r)
            n += 1
    if worst > 1 + 1e-9:
        viols.append(V("axis_bound", "{}: max |R(iy)| on the imaginary axis grid is 1 + {:.3e}".format(name, worst - 1), name, method=name))
    return viols, dict(nontrivial=True, labels=["poles:" + name], counts=dict(axis_points=n), metrics={"axis_excess": worst - 1})


def _check_table(case):
    name = case["method"]
    c, A, B = M.tableau(name)
    viols = []
    worst = 0.0
    big = False
    for mag, ang, where in case["pts"]:
        z = mag * np.exp(1j * ang)
        if where in ("axis+", "axis-"):
            z = 1j * z.imag
        elif where == "real":
            z = complex(-mag, 0.0)
        if z.real > 0:
            z = complex(0.0, z.imag)
        r = abs(R(A, B[0], z))
        worst = max(worst, r - 1)
        big |= mag >= 10 or where != "interior"
        if not r <= 1 + 1e-9:
            viols.append(V("stability_function", "{}: |R(z)| = 1 + {:.3e} at z = {!r} in the closed left half-plane".format(name, r - 1, z), name, method=name))
            break
    return viols, dict(nontrivial=big, labels=["table:" + name], counts=dict(z_points=len(case["pts"])), metrics={"R_excess": worst})


def _check_step(case):
    from desolver import DiffRHS
    from desolver.exception_types import FailedToMeetTolerances
    name = case["method"]
    h = case["h"]
    lam = case["zmag"] * np.exp(1j * case["ang"]) / abs(h)
    if case["kind"] == "real":
        lam = complex(-abs(lam), 0.0)
    elif case["kind"] == "imag":
        lam = complex(0.0, abs(lam))
    if lam.real > 0:
        lam = complex(0.0, lam.imag)
    if case.get("unit_rate") and case["kind"] == "real":
        lam = complex(-1.0, 0.0)
    if h < 0:
        lam = -lam   # Re(lambda h) <= 0 with a negative step
    tol = case["tol"]
    ysc = case.get("yscale", 1.0)
    labels = ["step:" + name, "kind:" + case["kind"], "h<0" if h < 0 else "h>0", "jac:user" if case["user_jac"] else "jac:fd"]
    if case["kind"] == "real":
        Amat = np.array([[lam.real]])
        y0 = np.array([case["y0"][0]], dtype=np.float64) * ysc
    else:
        Amat = np.array([[lam.real, -lam.imag], [lam.imag, lam.real]])
        y0 = np.array(case["y0"], dtype=np.float64) * ysc

    class F(object):
        def __call__(self, t, y, k=1.0, **kw):
            if case.get("unit_rate") and case["kind"] == "real" and h < 0 and k == 1.0 and isinstance(y, np.ndarray):
                return y          # y' = y, literally
            return k * (Amat @ y)
    f = F()
    if case.get("unit_rate") and case["kind"] == "real" and h < 0:
        labels.append("rhs_returns_its_argument")
    if case["user_jac"]:
        f.jac = lambda t, y, k=1.0, **kw: k * Amat
    rhs = DiffRHS(f)
    integ = M.get(name)(sys_dim=y0.shape, dtype=np.float64, rtol=tol, atol=tol * ysc)
    t_start = np.float64(0.0)
    consts = {"k": 1.0}
    if case.get("warm") is not None and abs(case["zmag"] * case["warm"]) <= 1e4:
        consts = {"k": case["warm"]}
        try:
            _, (dT0, dY0) = integ(rhs, np.float64(-h), y0, consts, np.float64(h))
            y0 = y0 + np.asarray(dY0, dtype=np.float64)
            t_start = np.float64(-h) + dT0
            labels.append("continued_after_a_step_with_another_lambda")
        except Exception as e:
            if exc_origin(e)[0] == "harness":
                raise
            integ = M.get(name)(sys_dim=y0.shape, dtype=np.float64, rtol=tol, atol=tol * ysc)      # warm-up failed: judge a cold step
        if case.get("inplace"):
            consts["k"] = 1.0
        else:
            consts = {"k": 1.0}
        if not np.all(np.isfinite(y0)) or float(np.linalg.norm(y0)) == 0.0 or float(np.linalg.norm(y0)) > 1e100:
            return [], dict(nontrivial=False, labels=labels + ["warm_state_degenerate"])
    h_arg = np.float64(h)
    if case.get("inplace_h"):
        h_arg = np.array(h / 16.0, dtype=np.float64)
        try:
            _, (dT0, dY0) = integ(rhs, t_start, y0, consts, h_arg)
            y0 = y0 + np.asarray(dY0, dtype=np.float64)
            t_start = t_start + dT0
            h_arg *= 16.0
            labels.append("step_array_scaled_in_place_between_two_calls")
        except Exception as e:
            if exc_origin(e)[0] == "harness":
                raise
            integ = M.get(name)(sys_dim=y0.shape, dtype=np.float64, rtol=tol, atol=tol * ysc)
            h_arg = np.float64(h)
        if not np.all(np.isfinite(y0)) or float(np.linalg.norm(y0)) == 0.0:
            return [], dict(nontrivial=False, labels=labels + ["warm_state_degenerate"])
    try:
        _, (dT, dY) = integ(rhs, t_start, y0, consts, h_arg)
    except FailedToMeetTolerances:
        return [], dict(nontrivial=False, labels=labels + ["reported_failure"])
    except Exception as e:
        if exc_origin(e)[0] == "harness":
            raise
        return [V("step_raised", "{} raised {!r} on y' = lambda y, lambda = {!r}, h = {}".format(name, e, lam, h), name + exc_sig(e), method=name)], dict(nontrivial=False, labels=labels)
    viols = []
    y1 = y0 + np.asarray(dY, dtype=np.float64)
    n0, n1 = float(np.linalg.norm(y0)), float(np.linalg.norm(y1))
    dT = float(dT)
    c, A, B = M.tableau(name)
    z = lam * dT
    attrs = dict(method=name)
    newton_tol = 0.5 * (tol * ysc + tol * float(np.max(np.abs(y0))))
    slackabs = 10 * newton_tol * max(1.0, abs(dT)) + 1e-9 * max(ysc, n0 if ysc != 1.0 else 1.0)
    if not n1 <= n0 * (1 + 1e-8) + slackabs:
        viols.append(V("growth", "{}: an accepted step on y' = lambda y with Re(lambda h) <= 0 increased |y| from {:.6e} to {:.6e} (lambda = {!r}, dT = {}, tol = {})".format(
            name, n0, n1, lam, dT, tol), name, **attrs))
    if case["kind"] == "real":
        ratio = complex(y1[0] / y0[0])
    else:
        ratio = complex(y1[0], y1[1]) / complex(y0[0], y0[1])
    Rz = complex(R(A, B[0], z))
    err = abs(ratio - Rz) * n0
    if not err <= slackabs:
        viols.append(V("step_vs_R", "{}: computed step gives y1/y0 = {!r} but R(lambda dT) = {!r} (|difference| x |y0| = {:.3e}, allowed {:.3e}; lambda = {!r}, dT = {}, tol = {})".format(
            name, ratio, Rz, err, slackabs, lam, dT, tol), name, **attrs))
    return viols, dict(nontrivial=bool(abs(z) >= 10), labels=labels + (["|z|>=10"] if abs(z) >= 10 else []),
                       metrics={"step_vs_R/allowed": err / slackabs})


def _check_switch(case):
    import desolver as de
    h = case["h"]
    if case["kind"] == "real":
        lam = complex(-case["z"] / abs(h), 0.0)
        Amat = np.array([[lam.real]])
        y0 = np.array([case["y0"][0]], dtype=np.float64)
    else:
        lam = case["z"] * np.exp(1j * case["ang"]) / abs(h)
        Amat = np.array([[lam.real, -lam.imag], [lam.imag, lam.real]])
        y0 = np.array(case["y0"], dtype=np.float64)
    if h < 0:
        lam, Amat = -lam, -Amat          # Re(lambda h) <= 0 with a negative step
    tol = case["tol"]
    labels = ["switch:" + case["first"] + "->" + "->".join(case["seconds"]), "h<0" if h < 0 else "h>0"]
    a = de.OdeSystem(lambda t, y, **kw: Amat @ y, y0=y0.copy(), t=(case["t0"], case["t0"] + 64 * h), dt=abs(h), rtol=tol, atol=tol)
    a.method = M.get(case["first"])
    phases = [(case["first"], case["k"])] + [(nm, case["m"]) for nm in case["seconds"]]
    viols = []
    t_target = case["t0"]
    judged = 0
    for p_i, (name, nsteps) in enumerate(phases):
        if p_i > 0:
            a.method = M.get(name)
            if not case["same_dt"]:
                a.dt = abs(h)
        t_target = t_target + nsteps * h
        n_before = len(a)
        err = traj.run_integrate(a, np.float64(t_target), step_limit=n_before + 400)
        if isinstance(err, traj.StepCap):
            return viols, dict(nontrivial=False, labels=labels + ["capped"])
        if err is not None:
            if exc_origin(err)[0] == "harness":
                raise err
            if isinstance(err.__cause__, de.exception_types.FailedToMeetTolerances):
                return viols, dict(nontrivial=False, labels=labels + ["reported_failure"])
            return [V("switch_raised", "{} after switching from {}: {!r} caused by {!r}".format(name, phases[p_i - 1][0] if p_i else "-", err, err.__cause__), name + exc_sig(err), method=name)], dict(nontrivial=False, labels=labels)
        if p_i == 0 or not M.is_implicit(name):
            continue
        c, A, B = M.tableau(name)
        t = np.asarray(a.t, dtype=np.float64)
        y = np.asarray(a.y, dtype=np.float64)
        for n in range(n_before - 1, len(t) - 1):
            dT = float(t[n + 1] - t[n])
            ya, yb = y[n], y[n + 1]
            na = float(np.linalg.norm(ya))
            if na == 0.0 or not np.isfinite(na):
                break
            ratio = complex(yb[0] / ya[0]) if case["kind"] == "real" else complex(yb[0], yb[1]) / complex(ya[0], ya[1])
            Rz = complex(R(A, B[0], lam * dT))
            newton_tol = 0.5 * (tol + tol * float(np.max(np.abs(ya))))
            slackabs = 10 * newton_tol * max(1.0, abs(dT)) + 1e-9 * max(1.0, na)
            e = abs(ratio - Rz) * na
            judged += 1
            if not e <= slackabs:
                viols.append(V("step_vs_R_after_switch", "{} (selected after {} steps of {} with dt {}, no reset): step {} gives y1/y0 = {!r} but R(lambda dT) = {!r} (|difference| x |y0| = {:.3e}, allowed {:.3e}; lambda = {!r}, dT = {})".format(
                    name, phases[p_i - 1][1], phases[p_i - 1][0], h, n - (n_before - 1), ratio, Rz, e, slackabs, lam, dT), name, method=name))
                return viols, dict(nontrivial=True, labels=labels)
    return viols, dict(nontrivial=judged > 0, labels=labels, counts=dict(steps_judged_after_a_switch=judged))


def check(case):
    return {"poles": _check_poles, "table": _check_table, "step": _check_step, "switch": _check_switch}[case["part"]](case)
