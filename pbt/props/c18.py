"""C18 - the solve_ivp facade honours its arguments and agrees with the object API.

Case = (method given by name / alternative name / class, state shape (n,), (1,), (a,b), 3-D, args tuple of length
0..3 bound to distinguishable parameters of the rhs, t_eval in {None, interior subset, with end points, unsorted,
repeated}, max_step, first_step, tolerances, dense output on/off, an event or none, span forward (with t_eval) or in
either direction (without)).
Oracles: shapes t (n_t,), y state_shape + (n_t,), columns pair up and start at y0; with t_eval: exactly those times,
sorted, and the solution there within the accuracy bound of the exact (linear) solution; args: bit-for-bit equal to
the run with the parameters baked into a closure; no recorded step longer than max_step (1 + 4 eps); sol / nfev / njev
/ status / success / events are those of result.ode_system; object-API twin (same settings driven through OdeSystem)
gives the same t, y bit for bit; scipy.integrate.solve_ivp at the same tolerances agrees at the final time to
200 (atol + rtol |y|) x amplification.
"""
import math

import numpy as np
from hypothesis import strategies as st

from pbt import methods as M
from pbt import traj
from pbt.core import V, Part, exc_sig, exc_origin

ID = "C18"
LEVEL = "exploration"
RULE = ("Hypothesis-generated solve_ivp calls. Distinct = SHA-1 of the case JSON. Non-trivial = non-vector state, or t_eval "
        "without end points / unsorted / repeated, or an active max_step (smaller than the steps the method would take).")
ASSUMPTIONS = ["accuracy bound 200 (atol + rtol max|y|) exp(|mu| T) against the closed-form solution of y' = p1 A y + p2 u cos(p3 t) (p2 = 0 here: linear, exact via expm)",
               "twin run replicates the facade's documented steps: OdeSystem(...), method, a callback capping |dt| at max_step, integrate per t_eval"]

SHAPES = [[2], [1], [3], [2, 2], [2, 1, 2]]
METHOD_KEYS = ["RK45", "RK45CK", "RK87", "DOPRI45", "class:RK45CKSolver", "class:RK8713MSolver", "Runge-Kutta-Cash-Karp", "Dormand-Prince", "RK4", "class:RK4Solver",
               "class:LobattoIIIC4", "class:ImplicitMidpoint", "AHE",
               # classes made by generate_richardson_integrator (reachable only by class), incl. bases flagged symplectic
               "class:Rich2:ImplicitMidpoint", "class:Rich3:RK4Solver"]


@st.composite
def _case(draw):
    shape = draw(st.sampled_from(SHAPES))
    n = int(np.prod(shape))
    A = draw(st.lists(st.lists(st.integers(-4, 4).map(lambda k: k / 4.0), min_size=n, max_size=n), min_size=n, max_size=n))
    nargs = draw(st.integers(0, 3))
    args = [draw(st.sampled_from([0.5, 1.0, -0.75, 1.5])) for _ in range(nargs)]
    forward_only = draw(st.booleans())
    t0 = draw(st.sampled_from([0.0, 1.0, -2.0, 10.0]))
    L = draw(st.sampled_from([1.0, 2.0, 0.5]))
    te_kind = draw(st.sampled_from(["none", "none", "interior", "with_ends", "unsorted", "repeated"]))
    direction = draw(st.sampled_from([1.0, 1.0, -1.0]))       # (backward spans visit their output times in decreasing order)
    tf = t0 + direction * L
    fr = sorted(set(draw(st.lists(st.sampled_from([0.1, 0.25, 0.4, 0.5, 0.75, 0.9]), min_size=1, max_size=5))))
    if te_kind == "none":
        t_eval = None
    elif te_kind == "interior":
        t_eval = [t0 + f * (tf - t0) for f in fr]
    elif te_kind == "with_ends":
        t_eval = [t0] + [t0 + f * (tf - t0) for f in fr] + [tf]
    elif te_kind == "unsorted":
        t_eval = [t0 + f * (tf - t0) for f in reversed(fr)] + [t0 + 0.33 * (tf - t0)]
    else:
        t_eval = [t0 + f * (tf - t0) for f in fr] + [t0 + fr[0] * (tf - t0), t0 + fr[-1] * (tf - t0)]
    method = draw(st.sampled_from(METHOD_KEYS))
    tol = draw(st.sampled_from([1e-4, 1e-6, 1e-8]))
    if method in ("AHE",):
        tol = max(tol, 1e-5)        # second-order pair: keep the run below a few thousand steps
    if method in ("class:LobattoIIIC4", "class:ImplicitMidpoint"):
        tol = max(tol, 1e-6)
    if method.startswith("class:Rich"):
        tol = 1e-4 if "RK4" not in method else max(tol, 1e-6)      # extrapolated implicit bases: keep a case within seconds
    return dict(part="facade", method=method, shape=shape, A=A, y0=draw(st.lists(st.integers(-4, 4).map(lambda k: k / 2.0), min_size=n, max_size=n)),
                args=args, sig_defaults=(draw(st.sampled_from([None, None, "all", "one_required"])) if nargs >= 1 else draw(st.sampled_from([None, None, "all"]))),
                t0=t0, tf=tf, t_eval=t_eval, te_kind=te_kind,
                max_step=draw(st.sampled_from([None, None, 0.05, 0.2, 10.0])), first_step=draw(st.sampled_from([None, 0.1, 0.01, 5.0])),
                tol=tol, dense=draw(st.booleans()), event=draw(st.sampled_from([None, None, "time", "terminal"])),
                rhs_kind=draw(st.sampled_from(["function", "function", "bound", "callable"])))


def parts(tier):
    q = tier == "quick"
    return [Part("facade", strategy=_case(), examples=1500 if q else 15000, timeout=300)]


def _make_rhs(case, baked):
    shape = tuple(case["shape"])
    A = np.asarray(case["A"], dtype=np.float64)
    n = A.shape[0]
    args = list(case["args"])
    defaults = [1.0, 1.0, 1.0]

    def core(t, y, p1, p2, p3):
        return (p1 * p3 * (A @ y.reshape(n)) + 0.0 * p2).reshape(shape) * 1.0 + (p2 - p2)

    if case.get("sig_defaults"):
        # a right-hand side that declares defaults, with args covering none / some / all of the defaulted parameters
        own = [1.5, 0.25, 2.0]
        if baked:
            vals = args + own[len(args):]

            def f(t, y):
                return core(t, y, *vals)
            return f

        params = ["p1=1.5", "p2=0.25", "p3=2.0"] if case["sig_defaults"] != "one_required" else ["p1", "p2=0.25", "p3=2.0"]
        return _build(core, params, [], case.get("rhs_kind") or "function")
    if baked:
        vals = args + defaults[len(args):]

        def f(t, y):
            return core(t, y, *vals)
        return f
    return _build(core, ["p{}".format(i + 1) for i in range(len(args))], ["1.0"] * (3 - len(args)), case.get("rhs_kind") or "function")


def _build(core, params, fill, kind):
    """The right-hand side with the given parameter list as a plain function, a bound method or an object with __call__."""
    sig = ", ".join(["t", "y"] + params)
    call = ", ".join(["t", "y"] + [q.split("=")[0] for q in params] + fill)
    ns = {"core": core}
    if kind == "bound":
        src = "class H:\n    def m(self, {}):\n        return core({})\nout = H().m".format(sig, call)
    elif kind == "callable":
        src = "class H:\n    def __call__(self, {}):\n        return core({})\nout = H()".format(sig, call)
    else:
        src = "def out({}):\n    return core({})".format(sig, call)
    exec(src, ns)
    return ns["out"]


def _method(case):
    key = case["method"]
    if key.startswith("class:"):
        return M.get(key[6:])
    return key


def _call(case, baked=False):
    import desolver as de
    f = _make_rhs(case, baked)
    y0 = np.asarray(case["y0"], dtype=np.float64).reshape(tuple(case["shape"]))
    opts = dict(rtol=case["tol"], atol=case["tol"])
    if case["max_step"] is not None:
        opts["max_step"] = case["max_step"]
    if case["first_step"] is not None:
        opts["first_step"] = case["first_step"]
    events = None
    if case["event"] in ("time", "terminal"):
        tc = case["t0"] + 0.6 * (case["tf"] - case["t0"])

        def ev(t, y, **kw):
            return t - tc
        ev.is_terminal = case["event"] == "terminal"
        events = [ev]
    return de.solve_ivp(f, (case["t0"], case["tf"]), y0.copy(), method=_method(case), t_eval=None if case["t_eval"] is None else np.asarray(case["t_eval"], dtype=np.float64),
                        dense_output=case["dense"], events=events, args=None if (baked or not case["args"]) else tuple(case["args"]), **opts), y0


def check(case):
    import desolver as de
    import scipy.integrate
    import scipy.linalg
    shape = tuple(case["shape"])
    meth = _method(case)
    mname = meth if isinstance(meth, str) else meth.__name__
    attrs = dict(method=mname, te_kind=case["te_kind"])
    labels = ["method_by:" + ("class" if not isinstance(meth, str) else "name"), "t_eval:" + case["te_kind"], "shape:{}d".format(len(shape)),
              "args:{}".format(len(case["args"])), "rhs_kind:" + (case.get("rhs_kind") or "function"), "backward" if case["tf"] < case["t0"] else "forward"]
    sig = case["te_kind"]
    viols = []
    try:
        res, y0 = _call(case)
    except Exception as e:
        if exc_origin(e)[0] == "harness":
            raise
        if isinstance(getattr(e, "__cause__", None), de.exception_types.FailedToMeetTolerances) and (mname in ("LobattoIIIC4", "ImplicitMidpoint") or "Rich" in case["method"]):
            return [], dict(nontrivial=False, labels=labels + ["reported_failure"])
        return [V("solve_ivp_raised", "solve_ivp({}, t_span=({!r}, {!r}), t_eval {}, max_step {}, first_step {}) raised {!r} caused by {!r}".format(
            mname, case["t0"], case["tf"], case["te_kind"], case["max_step"], case["first_step"], e, getattr(e, "__cause__", None)), sig + exc_sig(e), **attrs)], dict(nontrivial=False, labels=labels)
    t = np.asarray(res.t)
    y = np.asarray(res.y)
    eps = float(np.finfo(np.float64).eps)
    nt = len(t)
    # ---- shapes / pairing
    if t.ndim != 1 or y.shape != shape + (nt,):
        viols.append(V("shapes", "t.shape {} y.shape {} for a state of shape {}".format(t.shape, y.shape, shape), sig, **attrs))
        return viols, dict(nontrivial=False, labels=labels)
    osys = res.ode_system
    A = np.asarray(case["A"], dtype=np.float64)
    p = list(case["args"]) + ([1.5, 0.25, 2.0] if case.get("sig_defaults") else [1.0, 1.0, 1.0])[len(case["args"]):]
    Aeff = p[0] * p[2] * A
    n = A.shape[0]
    mu = float(np.max(np.abs(np.linalg.eigvalsh((Aeff + Aeff.T) / 2))))
    T = abs(case["tf"] - case["t0"])
    amp = math.exp(mu * T)

    def exact(tt):
        return (scipy.linalg.expm(Aeff * (tt - case["t0"])) @ y0.reshape(n)).reshape(shape)
    ymax = max(float(np.max(np.abs(y))) if y.size else 0.0, 1e-300)
    # a terminal event at tc ends the run: output times beyond it are never reached (and the event time is no output time)
    term = case["event"] == "terminal"
    tc_ = case["t0"] + 0.6 * (case["tf"] - case["t0"])
    sg_ = 1.0 if case["tf"] > case["t0"] else -1.0
    # (the run covers t_span whatever output times are asked for, so a terminal event inside the span always ends it)
    term_hit = term
    if term:
        labels.append("terminal_event:" + ("hit" if term_hit else "not_reached"))
    t_end = tc_ if term_hit else case["tf"]
    bound = 200 * (case["tol"] + case["tol"] * ymax) * amp * math.sqrt(max(len(osys), 1))
    fixed = mname in ("RK4Solver", "RK4", "ImplicitMidpoint")
    if case["t_eval"] is None:
        if t[0] != case["t0"] or not np.array_equal(y[..., 0], y0):
            viols.append(V("first_column", "t[0]={!r}, y[..., 0] != y0".format(float(t[0])), sig, **attrs))
        if abs(float(t[-1]) - t_end) > (1e-9 if term_hit else 64 * eps) * max(1.0, abs(t_end)):
            viols.append(V("end_time", "last time {!r} for t_span end {!r}{}".format(float(t[-1]), case["tf"], " and a terminal event at {!r}".format(tc_) if term_hit else ""), sig, **attrs))
        if not np.array_equal(t, np.asarray(osys.t)) or not np.array_equal(np.moveaxis(y, -1, 0), np.asarray(osys.y)):
            viols.append(V("columns_vs_system", "the columns of result.y are not the recorded states of result.ode_system", sig, **attrs))
    else:
        want = np.sort(np.asarray(case["t_eval"], dtype=np.float64))
        if case["tf"] < case["t0"]:
            want = want[::-1]           # in the order a backward integration meets them
        if term_hit:
            want = want[sg_ * want < sg_ * tc_]
            if len(want) < len(case["t_eval"]):
                labels.append("t_eval_cut_by_terminal_event" + (":to_nothing" if len(want) == 0 else ""))
        if len(t) != len(want) or np.any(np.abs(t - want) > 64 * eps * np.maximum(1.0, np.abs(want))):
            viols.append(V("t_eval_times", "t_eval {} requested, result.t = {}".format(want.tolist(), t.tolist()), sig, **attrs))
        elif not fixed:
            for j in range(nt):
                d = float(np.max(np.abs(y[..., j] - exact(t[j]))))
                if not d <= bound:
                    viols.append(V("t_eval_accuracy", "{}: at t_eval[{}]={!r} the returned state is off by {:.3e} (allowed {:.3e})".format(mname, j, float(t[j]), d, bound), sig, **attrs))
                    break
    if case["t_eval"] is not None and len(osys) >= 1 and abs(float(np.asarray(osys.t)[-1]) - t_end) > (1e-9 if term_hit else 64 * eps) * max(1.0, abs(t_end)):
        viols.append(V("span_not_covered", "t_eval given: the underlying run ended at {!r}, t_span ends at {!r}{}".format(float(np.asarray(osys.t)[-1]), case["tf"], " (terminal event at {!r})".format(tc_) if term_hit else ""), sig, **attrs))
    # ---- max_step
    steps = np.abs(np.diff(np.asarray(osys.t, dtype=np.float64)))
    active = False
    if case["max_step"] is not None and len(steps):
        if np.any(steps > case["max_step"] * (1 + 4 * eps) + 64 * eps * max(1.0, abs(case["t0"]), abs(case["tf"]))):
            k = int(np.argmax(steps))
            # the very first step is taken with first_step (clipped to max_step by the facade)
            viols.append(V("max_step", "{}: recorded step {} has length {!r} > max_step {!r} ({})".format(mname, k, float(steps[k]), case["max_step"], "backward" if case["tf"] < case["t0"] else "forward"), sig, **attrs))
        active = case["max_step"] < 0.5
    # ---- pass-through fields
    if (res.sol is not osys.sol) or res.nfev != osys.nfev or res.njev != osys.njev or res.success != osys.success or res.status != osys.integration_status:
        viols.append(V("pass_through", "sol / nfev / njev / status / success of the result differ from those of result.ode_system", sig, **attrs))
    if case["dense"] != (res.sol is not None):
        viols.append(V("dense_flag", "dense_output={} but result.sol is {}".format(case["dense"], "None" if res.sol is None else "set"), sig, **attrs))
    if case["event"] in ("time", "terminal"):
        tc = case["t0"] + 0.6 * (case["tf"] - case["t0"])
        sg_ = 1.0 if case["tf"] > case["t0"] else -1.0
        if term_hit != ("terminated upon" in str(res.status)):
            viols.append(V("status", "terminal event {}: status {!r}".format("reached" if term_hit else "not reached", res.status), sig, **attrs))
        # (the integration covers t_span whatever t_eval asks for - scipy's semantics: an event behind the last output time
        #  is still an event of the run)
        reached = True
        evs = list(res.t_events)
        if reached and (len(evs) != 1 or abs(float(evs[0].t) - tc) > 1e-9 * max(1.0, abs(tc))):
            viols.append(V("events", "time event at {!r}: result.t_events has {} records {}".format(tc, len(evs), [float(e.t) for e in evs][:4]), sig, **attrs))
    if viols:
        return viols, dict(nontrivial=False, labels=labels)
    # ---- args: parameters baked into a closure
    if case["args"] or case.get("sig_defaults"):
        res2, _ = _call(case, baked=True)
        if not np.array_equal(np.asarray(res2.t), t) or not np.array_equal(np.asarray(res2.y), y):
            viols.append(V("args_binding", "{}: args={} does not give the run with the parameters bound in order (max state difference {:.3e})".format(
                mname, case["args"], float(np.max(np.abs(np.asarray(res2.y) - y))) if np.asarray(res2.y).shape == y.shape else float("nan")), sig, **attrs))
    # ---- object API twin
    f = _make_rhs(case, baked=True)
    first = case["first_step"] if case["first_step"] is not None else 1.0
    max_step = case["max_step"] if case["max_step"] is not None else np.inf
    dt0 = max(min(first, max_step), 0.0)
    a = de.OdeSystem(f, y0=y0.copy(), t=(case["t0"], case["tf"]), dense_output=case["dense"], dt=dt0, rtol=case["tol"], atol=case["tol"])
    a.method = meth
    cbs = []
    if case["max_step"] is not None:
        def cap(s):
            s.dt = np.sign(s.dt) * np.clip(np.abs(s.dt), 0.0, max_step)
        cbs.append(cap)
    evs = None
    if case["event"] in ("time", "terminal"):
        tc = case["t0"] + 0.6 * (case["tf"] - case["t0"])

        def ev2(t, y, **kw):
            return t - tc
        ev2.is_terminal = term
        evs = [ev2]
    try:
        if case["t_eval"] is None:
            a.integrate(callback=cbs, events=evs)
            tt, yy = np.asarray(a.t), np.moveaxis(np.asarray(a.y), 0, -1)
        else:
            tl, yl = [], []
            order_ = np.sort(np.asarray(case["t_eval"], dtype=np.float64))
            for tq in (order_ if case["tf"] > case["t0"] else order_[::-1]):
                a.integrate(t=tq, callback=cbs, events=evs)
                if term and "terminated upon" in a.integration_status and a[-1].t != tq:
                    break               # the run is over: a user of the object API stops asking for output times
                tl.append(a[-1].t)
                yl.append(a[-1].y)
            tt, yy = (np.stack(tl), np.stack(yl, axis=-1)) if tl else (np.asarray(a.t)[:0], np.moveaxis(np.asarray(a.y)[:0], 0, -1))
        if not np.array_equal(tt, t) or not np.array_equal(yy, y):
            viols.append(V("object_api_twin", "{}: driving OdeSystem with the same settings gives different results (max state difference {:.3e}, {} vs {} columns)".format(
                mname, float(np.max(np.abs(yy - y))) if yy.shape == y.shape else float("nan"), yy.shape[-1], y.shape[-1]), sig, **attrs))
    except Exception as e:
        if exc_origin(e)[0] == "harness":
            raise
        viols.append(V("object_api_twin_raised", "the object-API twin raised {!r}".format(e), sig + exc_sig(e), **attrs))
    # ---- scipy twin (final time)
    if not fixed and not viols and nt > 0:
        sres = scipy.integrate.solve_ivp(lambda tq, v: (Aeff @ v), (case["t0"], float(t[-1])), y0.reshape(n), method="DOP853", rtol=1e-10, atol=1e-12)
        d = float(np.max(np.abs(sres.y[:, -1].reshape(shape) - y[..., -1])))
        if not d <= bound:
            viols.append(V("scipy_twin", "{}: final state differs from scipy.integrate.solve_ivp by {:.3e} (allowed {:.3e})".format(mname, d, bound), sig, **attrs))
    nontrivial = bool(len(shape) > 1 or term_hit or case["te_kind"] in ("interior", "unsorted", "repeated") or active)
    return viols, dict(nontrivial=nontrivial, labels=labels)
