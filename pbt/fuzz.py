"""Coverage-guided driver (atheris / libFuzzer) for a part of a property.

    python -m pbt.fuzz <ID> <part> <tier> <runs> <seed> <outdir>

The part's Hypothesis strategy is driven through `fuzz_one_input`: libFuzzer mutates the byte string that Hypothesis turns
into a case, with coverage feedback from the instrumented desolver modules; the oracle is the property's own check(case),
so a coverage-guided campaign decides exactly what the generated campaign decides. The first unknown violation stops the
campaign (libFuzzer semantics); the case is written to <outdir>/failure.json. <outdir>/result.json carries the counts.
A fresh corpus directory and -seed=<seed> -runs=<runs> pin the campaign as far as libFuzzer allows."""
import json
import os
import sys


def main():
    pid, part_name, tier, runs, seed, outdir = sys.argv[1], sys.argv[2], sys.argv[3], int(sys.argv[4]), int(sys.argv[5]), sys.argv[6]
    os.makedirs(os.path.join(outdir, "corpus"), exist_ok=True)
    result = dict(evaluations=0, nontrivial=[], labels={}, known_hits={}, failure=None, error=None, skipped=None)

    def finish(code):
        with open(os.path.join(outdir, "result.json"), "w") as fh:
            json.dump(result, fh)
        sys.stdout.flush()
        os._exit(code)
    try:
        import atheris
    except Exception as e:       # not installed and not installable: the part is skipped, never a verdict
        result["skipped"] = "atheris not importable: {!r}".format(e)
        finish(0)
    with atheris.instrument_imports(include=["desolver"], enable_loader_override=False):
        import desolver  # noqa: F401
        import desolver.utilities.optimizer  # noqa: F401
        import desolver.utilities.interpolation  # noqa: F401
        import desolver.utilities.utilities  # noqa: F401
    import hypothesis
    from hypothesis import given, settings, HealthCheck
    from pbt import core
    prop = core.load_prop(pid)
    part = [p for p in prop.parts(tier) if p.name == part_name][0]
    findings = core.load_known(pid)
    ctx = core.Ctx(prop, findings, part.timeout)

    class Found(Exception):
        pass

    @settings(database=None, deadline=None, suppress_health_check=list(HealthCheck), max_examples=10 ** 9)
    @given(part.strategy)
    def one(case):
        unknown = core.evaluate(ctx, case)
        if unknown:
            result["failure"] = dict(bucket=unknown[0].bucket, case=case, violations=[u.to_json() for u in unknown])
            raise Found()

    def target(data):
        try:
            one.hypothesis.fuzz_one_input(data)
        except Found:
            export()
            finish(0)            # the parent reports the violation; exit code 0 = campaign ran

    def export():
        ex = ctx.export()
        result["evaluations"] = ex["evaluations"]
        result["nontrivial"] = sorted(ex["nontrivial"])
        result["labels"] = dict(ex["labels"])
        result["known_hits"] = dict(ex["known_hits"])
        result["inconclusive"] = len(ex["inconclusive"])
        result["samples"] = ex["samples"]

    import atexit  # noqa: F401  (atexit does not run under libFuzzer: results are exported by a counting wrapper)
    calls = [0]

    def counted(data):
        calls[0] += 1
        target(data)
        if calls[0] >= runs:
            export()
            finish(0)
    # starting corpus: deterministic pseudo-random byte strings long enough for the strategy to draw a whole case from
    # (an empty corpus only yields inputs Hypothesis rejects as too short, which libFuzzer reads as "no coverage")
    import hashlib
    for i in range(24):
        blob = b"".join(hashlib.sha256("{}/{}/{}/{}".format(seed, pid, i, j).encode()).digest() for j in range(96))
        with open(os.path.join(outdir, "corpus", "seed{:02d}".format(i)), "wb") as fh:
            fh.write(blob)
    argv = [sys.argv[0], "-runs={}".format(runs + 10), "-seed={}".format(seed if seed else 1), "-max_len=8192", "-timeout=600",
            "-print_final_stats=0", "-verbosity=0", "-artifact_prefix={}/".format(outdir), os.path.join(outdir, "corpus")]
    atheris.Setup(argv, counted)
    atheris.Fuzz()
    export()
    finish(0)


if __name__ == "__main__":
    try:
        main()
    except SystemExit:
        raise
    except BaseException as e:   # harness error
        import traceback
        try:
            with open(os.path.join(sys.argv[6], "result.json"), "w") as fh:
                json.dump(dict(error="{}: {}\n{}".format(type(e).__name__, e, traceback.format_exc())), fh)
        finally:
            os._exit(3)
