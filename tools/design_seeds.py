#!/venv/bin/python
"""rewrites the seed table of DESIGN.md section 12 (between the header row of the table and the next blank line) from seeded/*/meta.json"""
import glob, json, os
HERE = os.path.dirname(os.path.dirname(os.path.abspath(__file__)))
rows = []
for d in sorted(glob.glob(os.path.join(HERE, "seeded", "*"))):
    m = json.load(open(os.path.join(d, "meta.json")))
    v = m.get("verification", {})
    ch = v.get("checks", {})
    res = ", ".join("{} {}{}".format(k, "CAUGHT" if c["caught"] else "missed", " ({})".format(c["first"].split(":")[0].replace("# ", "")) if c.get("first") and c["caught"] else "") for k, c in ch.items())
    conf = "yes" if m.get("confirmed") else "NO"
    if m.get("superseded"):
        conf = "superseded"
    summ = m.get("summary", "").replace("|", "/")
    if len(summ) > 170:
        summ = summ[:167] + "..."
    rows.append("| {} | {} | {} | {} | {} |".format(os.path.basename(d), m.get("property"), summ, conf, res))
p = os.path.join(HERE, "DESIGN.md")
s = open(p).read()
head = "| seed | written for | change | confirmed | quick checks run against it |\n|---|---|---|---|---|\n"
i = s.index(head) + len(head)
j = s.index("\n\n", i)
open(p, "w").write(s[:i] + "\n".join(rows) + s[j:])
print(len(rows), "rows")
