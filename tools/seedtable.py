#!/venv/bin/python
"""prints the markdown table of seeded changes (DESIGN.md section 12) from seeded/*/meta.json"""
import json, os, glob
HERE = os.path.dirname(os.path.dirname(os.path.abspath(__file__)))
print("| seed | breaks | change (one line) | needs | confirmed (demo 1/0, suite) | quick check |")
print("|---|---|---|---|---|---|")
for d in sorted(glob.glob(os.path.join(HERE, "seeded", "*"))):
    m = json.load(open(os.path.join(d, "meta.json")))
    v = m.get("verification", {})
    ch = v.get("checks", {})
    res = ", ".join("{} {}{}".format(k, "CAUGHT" if c["caught"] else "missed", " ({})".format(c["first"].split(":")[0].replace("# ", "")) if c.get("first") else "") for k, c in ch.items())
    conf = "yes" if m.get("confirmed") else "NO"
    if m.get("superseded"):
        conf = "superseded"
    print("| {} | {} | {} | {} | {}{} | {} |".format(os.path.basename(d), m.get("property"), m.get("summary", "").replace("|", "/")[:230], m.get("needs", "").replace("|", "/")[:200],
          conf, (", " + v.get("suite", "").split(",")[0]) if v.get("suite") else "", res))
