#!/bin/sh
# Runs the repository's own (unedited) suite on a scratch worktree of /repo at <rev> (default HEAD), guard off.
# usage: tools/suite.sh [rev]   -> prints the pytest summary line; log in /tmp/suite_<rev>.log; worktree removed afterwards
REV=${1:-HEAD}
SHA=$(git -C /repo rev-parse --short "$REV")
WT=/tmp/suite_wt_$SHA
git -C /repo worktree add --detach "$WT" "$REV" >/dev/null 2>&1 || exit 2
cd "$WT" && env -u DESOLVER_VERIF PYTHONPATH="$WT" /venv/bin/python -m pytest -q -p no:cacheprovider --timeout=900 -n 16 > /tmp/suite_$SHA.log 2>&1
RC=$?
cd /; git -C /repo worktree remove --force "$WT"
echo "suite@$SHA rc=$RC: $(grep -E " passed| failed| error" /tmp/suite_$SHA.log | tail -1)"
exit $RC
