#!/venv/bin/python
"""Confirms seeded changes written by independent sub-agents and runs the checks against them.

usage: tools/seeds.py import <srcdir> <PROP>      # srcdir holds a.diff a_demo.py a_meta.json b.diff ...
       tools/seeds.py run [--suite] [--tier quick] [seed-id ...]
For each seed under /verif/seeded/<id>/ (patch.diff, demo.py, meta.json): a scratch worktree of /repo HEAD is created
under /tmp, the patch applied, the demonstration run against the changed tree (must exit 1) and against /repo (must
exit 0), optionally the repository's suite, and then the quick check of the property (VERIF_REPO=<scratch>).
Results are merged into meta.json ("confirmed", "checks") and the worktree is removed."""
import json, os, shutil, subprocess, sys, time
HERE = os.path.dirname(os.path.dirname(os.path.abspath(__file__)))
SEEDED = os.path.join(HERE, "seeded")


def sh(cmd, **kw):
    return subprocess.run(cmd, shell=True, capture_output=True, text=True, **kw)


def do_import(src, prop):
    for letter in "abcdefghijk":
        d = os.path.join(src, letter + ".diff")
        if not os.path.exists(d):
            continue
        sid = "{}{}".format(prop, letter)
        dst = os.path.join(SEEDED, sid)
        os.makedirs(dst, exist_ok=True)
        shutil.copy(d, os.path.join(dst, "patch.diff"))
        shutil.copy(os.path.join(src, letter + "_demo.py"), os.path.join(dst, "demo.py"))
        meta = json.load(open(os.path.join(src, letter + "_meta.json")))
        meta["property"] = prop
        meta["origin"] = "independent sub-agent given only the property text and its own scratch worktree"
        json.dump(meta, open(os.path.join(dst, "meta.json"), "w"), indent=1)
        print("imported", sid)


def run_one(sid, suite, tier, extra_props=()):
    d = os.path.join(SEEDED, sid)
    meta = json.load(open(os.path.join(d, "meta.json")))
    wt = "/tmp/vseed_" + sid
    sh("git -C /repo worktree remove --force {}".format(wt))
    r = sh("git -C /repo worktree add --detach {} HEAD".format(wt))
    out = dict(applied=False)
    try:
        r = sh("git -C {} apply --whitespace=nowarn {}".format(wt, os.path.join(d, "patch.diff")))
        if r.returncode != 0:
            r = sh("cd {} && patch -p1 --fuzz=3 < {}".format(wt, os.path.join(d, "patch.diff")))
        out["applied"] = r.returncode == 0
        if not out["applied"]:
            out["apply_error"] = (r.stdout + r.stderr)[-400:]
            return out
        env = dict(os.environ, PYTHONPATH=wt)
        r1 = subprocess.run(["/venv/bin/python", os.path.join(d, "demo.py")], env=env, capture_output=True, text=True, cwd="/tmp")
        env0 = dict(os.environ, PYTHONPATH="/repo")
        r0 = subprocess.run(["/venv/bin/python", os.path.join(d, "demo.py")], env=env0, capture_output=True, text=True, cwd="/tmp")
        out["demo_on_changed_tree_exit"] = r1.returncode
        out["demo_on_repo_exit"] = r0.returncode
        if suite:
            rs = sh("cd {} && env -u DESOLVER_VERIF PYTHONPATH={} /venv/bin/python -m pytest -q -p no:cacheprovider --timeout=900 -n 16 2>&1 | grep -E ' passed| failed' | tail -1".format(wt, wt))
            out["suite"] = rs.stdout.strip()[:120]
        checks = {}
        also = [k for k in meta.get("verification", {}).get("checks", {}) if k != meta["property"]]     # checks run for this seed before
        for pid in [meta["property"]] + sorted(set(list(extra_props) + also)):
            t = time.time()
            env = dict(os.environ, VERIF_REPO=wt, VERIF_SCRATCH=os.path.join(wt, ".vscratch"))
            p = subprocess.run([os.path.join(HERE, "check"), pid, "--tier", tier], env=env, capture_output=True, text=True)
            viol = [l for l in p.stdout.splitlines() if l.startswith("VIOLATION")]
            notes = [l.strip() for l in p.stdout.splitlines() if l.startswith("  # ")]
            checks[pid] = dict(exit=p.returncode, violations=len(viol), caught=p.returncode == 1 and len(viol) > 0,
                               first=(notes[0][:300] if notes else ""), wall_s=round(time.time() - t, 1), tier=tier)
        out["checks"] = checks
        return out
    finally:
        sh("git -C /repo worktree remove --force {}".format(wt))
        sh("git -C /repo worktree prune")


def main():
    args = sys.argv[1:]
    if args and args[0] == "import":
        return do_import(args[1], args[2])
    args = args[1:] if args and args[0] == "run" else args
    suite = "--suite" in args
    args = [a for a in args if a != "--suite"]
    tier = "quick"
    if "--tier" in args:
        i = args.index("--tier"); tier = args[i + 1]; del args[i:i + 2]
    extra = []
    if "--also" in args:
        i = args.index("--also"); extra = args[i + 1].split(","); del args[i:i + 2]
    sids = args or sorted(os.listdir(SEEDED))
    for sid in sids:
        res = run_one(sid, suite, tier, extra)
        mp = os.path.join(SEEDED, sid, "meta.json")
        meta = json.load(open(mp))
        prev = meta.get("verification", {})
        prev.update({k: v for k, v in res.items() if k != "checks"})
        prev.setdefault("checks", {}).update(res.get("checks", {}))
        prev["repo_head"] = sh("git -C /repo rev-parse --short HEAD").stdout.strip()
        meta["verification"] = prev
        meta["confirmed"] = bool(res.get("applied") and res.get("demo_on_changed_tree_exit") == 1 and res.get("demo_on_repo_exit") == 0)
        json.dump(meta, open(mp, "w"), indent=1)
        print(sid, "applied" if res.get("applied") else "NOT-APPLIED", "demo(changed/repo)=", res.get("demo_on_changed_tree_exit"), res.get("demo_on_repo_exit"),
              res.get("suite", ""), {k: ("CAUGHT" if v["caught"] else "MISSED(exit %d)" % v["exit"]) for k, v in res.get("checks", {}).items()})


if __name__ == "__main__":
    main()
