"""Seeded mutations for the sensitivity protocol (DESIGN.md section 2).  Each compiles; each is meant to pass the
repository's own suite; each must be reported by the quick tier of the listed properties."""
U = "desolver/utilities/utilities.py"
I = "desolver/utilities/interpolation.py"
MUTATIONS = [
    # (equivalent mutants, not listed: ">=" -> ">" in the scalar loop and ">" -> ">=" in the vector loop are absorbed by the final adjustment)
    dict(name="bisect_scalar_final_adjust", props=["C17"], file=U,
         old="        if array[jlower] < val:\n            jlower = jupper\n\n    return jlower",
         new="        if array[jlower] <= val:\n            jlower = jupper\n\n    return jlower"),
    dict(name="bisect_vec_final_dropped", props=["C17"], file=U,
         old="        jlower = D.ar_numpy.where(D.ar_numpy.take(array, jlower, axis=0) < val, jupper, jlower)",
         new="        jlower = jlower"),
    dict(name="hermite_h10", props=["C17"], file=I,
         old="        h10 = t3 - 2 * t2 + t\n        h01 = -2 * t3 + 3 * t2",
         new="        h10 = t3 - 2 * t2 + t2\n        h01 = -2 * t3 + 3 * t2"),
    dict(name="hermite_grad_scale", props=["C17"], file=I,
         old="        h10 = t3 - 2 * t2 + (1/self.trange)",
         new="        h10 = t3 - 2 * t2 + 1"),
    dict(name="hermite_grad_h11", props=["C17"], file=I,
         old="        h11 = t3 - t2\n\n        # h00 = -h01",
         new="        h11 = t3 - 2 * t2\n\n        # h00 = -h01"),
]

# --------------------------------------------------------------------------------------------------
# the "kills" lists of DESIGN.md section 6, as concrete single-site mutations of the repaired tree
# --------------------------------------------------------------------------------------------------
RK = "desolver/integrators/components/runge_kutta_methods.py"
IT = "desolver/integrators/integrator_types.py"
TP = "desolver/integrators/integrator_template.py"
DS = "desolver/differential_system.py"
OP = "desolver/utilities/optimizer.py"
MUTATIONS += [
    dict(name="stage_time_not_scaled_by_h", props=["C02", "C01"], file=RK,
         old="            initial_time + timestep * rk_tableau[stage, 0], ", new="            initial_time + rk_tableau[stage, 0], "),
    dict(name="increment_uses_last_weight_row", props=["C02", "C01"], file=IT,
         old="            self.dState = timestep * D.ar_numpy.sum(self.stage_values * self.tableau_final[0, 1:], axis=-1)",
         new="            self.dState = timestep * D.ar_numpy.sum(self.stage_values * self.tableau_final[-1, 1:], axis=-1)"),
    dict(name="splitting_time_advances_with_kicks", props=["C02", "C01"], file=IT,   # (C10 quantifies over autonomous Hamiltonians: not expected there)
         old="            current_time = current_time + timestep * self.tableau_intermediate[stage, 1]",
         new="            current_time = current_time + timestep * self.tableau_intermediate[stage, 2]"),
    dict(name="richardson_denominator_off_by_one", props=["C01"], file=IT,
         old="                            2.0 ** (self.basis_order + n - 1) - 1)", new="                            2.0 ** (self.basis_order + n) - 1)"),
    dict(name="implicit_fixed_step_clamp_removed", props=["C04"], file=IT,
         old="            if not self.is_adaptive and D.ar_numpy.abs(timestep) > D.ar_numpy.abs(current_timestep):\n                # without",
         new="            if False and D.ar_numpy.abs(timestep) > D.ar_numpy.abs(current_timestep):\n                # without"),
    dict(name="safety_factor_above_one", props=["C05"], file=IT,
         old="solver_dict_preserved = dict(safety_factor=0.8,", new="solver_dict_preserved = dict(safety_factor=1.6,"),
    dict(name="rejection_threshold_loosened", props=["C05"], file=TP,
         old="            return timestep, bool(corr < 0.9**2)", new="            return timestep, bool(corr < 0.2**2)"),
    dict(name="backward_lookup_fix_reverted", props=["C06", "C09"], file=DS,
         old="        if idx > 0 and self.__is_decreasing() and self.t_eval[idx] > t:", new="        if False and self.__is_decreasing() and self.t_eval[idx] > t:"),
    dict(name="event_order_ignores_direction", props=["C07", "C09"], file=DS,
         old="        order = D.ar_numpy.argsort(D.ar_numpy.sign(t_next - t_prev) * roots)", new="        order = D.ar_numpy.argsort(roots)"),
    dict(name="brent_vec_success_from_residual_only", props=["C08", "C14"], file=OP,
         old="    true_conv = (fa * fb <= 0) & (true_conv | (D.ar_numpy.abs(b - a) <= tol * D.ar_numpy.maximum(1.0, D.ar_numpy.abs(b))))",
         new="    true_conv = (fa * fb <= 0) & true_conv"),
    dict(name="landing_goes_to_first_root", props=["C09"], file=DS,
         old="                            self.integrate(roots[-1])", new="                            self.integrate(roots[0])"),
    # (not listed: a wrong Newton matrix, e.g. abs(timestep) in algebraic_system_jacobian, only changes convergence, never an accepted value:
    #  behaviourally equivalent with respect to every listed property)
    dict(name="failure_cause_dropped", props=["C12"], file=DS,
         old="            new_e.__cause__ = e\n", new="            pass\n"),
    dict(name="reset_keeps_dt", props=["C13"], file=DS,
         old="        self.dt = self.__dt0\n", new="        pass\n"),
    dict(name="brent_scalar_initial_swap_dropped", props=["C14"], file=OP,
         old="    if D.ar_numpy.abs(fa) < D.ar_numpy.abs(fb):\n        a, b = b, a\n        fa, fb = fb, fa\n\n    c = D.ar_numpy.copy(a)",
         new="    c = D.ar_numpy.copy(a)"),
    dict(name="residual_gate_disabled", props=["C15"], file=OP,   # (C02 is protected by the integrators' own prec < desired_tol gate)
         old="    return bool(Fn <= xtol * D.ar_numpy.maximum(1.0, D.ar_numpy.linalg.norm(J)) and Fn <= tol * (J.shape[0] + Fn_initial))",
         new="    return True"),
    dict(name="fd_jacobian_layout_transposed", props=["C16"], file=U,
         old="            return jacobian_y.reshape((*D.ar_numpy.shape(dy_val), *D.ar_numpy.shape(y)))",
         new="            return jacobian_y.T.reshape((*D.ar_numpy.shape(y), *D.ar_numpy.shape(dy_val)))"),
    dict(name="t_eval_not_sorted", props=["C18"], file=DS,
         old="        t_eval = D.ar_numpy.sort(t_eval)\n", new="        t_eval = D.ar_numpy.asarray(t_eval)\n"),
    dict(name="index_guard_off_by_one", props=["C19"], file=DS,
         old="            if index > self.counter:", new="            if index >= self.counter:"),
    dict(name="nfev_counted_before_the_call", props=["C20"], file=DS,
         old="        called_val = self.rhs(t, y, *args, **kwargs)\n        self.nfev += 1\n", new="        self.nfev += 1\n        called_val = self.rhs(t, y, *args, **kwargs)\n"),
    dict(name="final_step_test_reverted", props=["C03", "C04", "C18"], file=DS,
         old="if not implicit_integration and D.ar_numpy.abs(self.dt) > D.ar_numpy.abs(tf - self.__t[self.counter]):",
         new="if not implicit_integration and D.ar_numpy.abs(self.dt + self.__t[self.counter]) > D.ar_numpy.abs(tf):"),
    dict(name="gauss_legendre4_a12_perturbed", props=["C10", "C01"], file="desolver/integrators/implicit_integration_schemes.py",   # (this sign adds damping: |R| stays <= 1)
         old="        [[0.5 - s / 6, 0.25, 0.25 - s / 6],\n         [0.5 + s / 6, 0.25 + s / 6, 0.25]], dtype=numpy.float64",
         new="        [[0.5 - s / 6, 0.25 + 1e-3, 0.25 - s / 6 - 1e-3],\n         [0.5 + s / 6, 0.25 + s / 6, 0.25]], dtype=numpy.float64"),
    dict(name="gauss_legendre4_a11_perturbed_minus", props=["C11", "C10", "C01"], file="desolver/integrators/implicit_integration_schemes.py",
         old="        [[0.5 - s / 6, 0.25, 0.25 - s / 6],\n         [0.5 + s / 6, 0.25 + s / 6, 0.25]], dtype=numpy.float64",
         new="        [[0.5 - s / 6, 0.25 - 1e-3, 0.25 - s / 6 + 1e-3],\n         [0.5 + s / 6, 0.25 + s / 6, 0.25]], dtype=numpy.float64"),
    # ---- reverts of repairs made late in the session (the checks must keep guarding them)
    dict(name="revert_D37_sub_resolution_step", props=["C03"], file=DS,
         old="                while dt != 0 and self.__t[self.counter] + dt == self.__t[self.counter]:\n                    dt = dt * 2\n", new=""),
    dict(name="revert_D38_stage_jacobian_layout", props=["C02"], file=IT,
         old="self.__jac[idx::__stages, jdx::__stages] -= timestep * self.tableau_intermediate[idx, 1 + jdx] * jac_block",
         new="self.__jac[idx * __step:(idx + 1) * __step, jdx * __step:(jdx + 1) * __step] -= timestep * self.tableau_intermediate[idx, 1 + jdx] * jac_block"),
    dict(name="revert_D39_kick_mask_kept", props=["C13"], file=DS,
         old="        if staggered_mask is None:\n            # a mask given through set_kick_vars while a non-symplectic method was selected is kept for the next symplectic one\n            return self.staggered_mask\n", new=""),
    dict(name="revert_D40_direction_fallback", props=["C08"], file=DS,
         old="    if D.ar_numpy.any(undecided):", new="    if False:"),
    dict(name="revert_D41_slope_cache_invalidation", props=["C06"], file=DS,
         old="        if hasattr(self.integrator, \"final_time\"):\n            self.integrator.final_time = None\n\n        events, is_terminal", new="        events, is_terminal"),
    dict(name="revert_D36_near_target_return", props=["C03"], file=DS,
         old="        if not np.isinf(D.ar_numpy.to_numpy(tf)) and D.ar_numpy.abs(tf - self.__t[self.counter]) < D.ar_numpy.maximum(D.tol_epsilon(self.__y[self.counter].dtype), 0.5 * D.epsilon(self.__y[self.counter].dtype) * D.ar_numpy.abs(tf)):\n            return\n", new=""),
    dict(name="revert_D42_hermite_gradient_cancellation", props=["C07"], file=I,
         old="        return h01 * (self.p1 - self.p0) + h10 * self.trange * self.m0 + h11 * self.trange * self.m1",
         new="        return (-h01) * self.p0 + h10 * self.trange * self.m0 + h01 * self.p1 + h11 * self.trange * self.m1"),
    dict(name="revert_D43_numpy_integer_index", props=["C19"], file=DS,
         old="        if isinstance(index, (int, np.integer)):", new="        if isinstance(index, int):"),
    dict(name="revert_D44_integer_typed_jacobian_point", props=["C16"], file=U,
         old="        if isinstance(y, numpy.ndarray) and y.dtype.kind in \"iub\":", new="        if False:"),
    dict(name="revert_D45_duplicate_guard_across_calls", props=["C07"], file=DS,
         old="                    if self.__events[__rec_idx].event is __ev:", new="                    if False:"),
    dict(name="revert_D46_backward_t_eval", props=["C18"], file=DS,
         old="        if t_eval[0] < min(t_span[0], t_span[1]) or t_eval[-1] > max(t_span[0], t_span[1]):", new="        if t_eval[0] < t_span[0] or t_eval[-1] > t_span[1]:"),
    dict(name="revert_D47_t_eval_past_terminal_event", props=["C18"], file=DS,
         old="            if ode_system.integration_status == \"Integration terminated upon finding a triggered event.\" and ode_system[-1].t != t:", new="            if False:"),
    dict(name="revert_D48_args_names_from_getfullargspec", props=["C18"], file=DS,
         old="        fn_params = [param.name for param in inspect.signature(fn).parameters.values()\n                     if param.kind in (param.POSITIONAL_ONLY, param.POSITIONAL_OR_KEYWORD)]", new="        fn_params = inspect.getfullargspec(fn)[0]"),
    dict(name="revert_D49_zero_row_times_stale_stages", props=["C02"], file=RK,
         old="        if not D.ar_numpy.any(stage_coeffs != 0.0):", new="        if False:"),
    dict(name="revert_D49_splitting_buffer_cleared_by_product", props=["C02"], file=IT,
         old="        self.dState[...] = 0.0", new="        self.dState *= 0.0"),
]
