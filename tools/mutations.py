"""Seeded mutations for the sensitivity protocol (DESIGN.md section 2).  Each compiles; each is meant to pass the
repository's own suite; each must be reported by the quick tier of the listed properties."""
U = "desolver/utilities/utilities.py"
I = "desolver/utilities/interpolation.py"
MUTATIONS = [
    # (equivalent mutants, not listed: ">=" -> ">" in the scalar loop and ">" -> ">=" in the vector loop are absorbed by the final adjustment)
    dict(name="bisect_scalar_final_adjust", props=["C17"], file=U,
         old="        if array[jlower] < val:\n            jlower = jupper\n\n    return jlower",
         new="        if array[jlower] <= val:\n            jlower = jupper\n\n    return jlower"),
    dict(name="bisect_vec_final_dropped", props=["C17"], file=U,
         old="        jlower = D.ar_numpy.where(D.ar_numpy.take(array, jlower, axis=0) < val, jupper, jlower)",
         new="        jlower = jlower"),
    dict(name="hermite_h10", props=["C17"], file=I,
         old="        h10 = t3 - 2 * t2 + t\n        h01 = -2 * t3 + 3 * t2",
         new="        h10 = t3 - 2 * t2 + t2\n        h01 = -2 * t3 + 3 * t2"),
    dict(name="hermite_grad_scale", props=["C17"], file=I,
         old="        h10 = t3 - 2 * t2 + (1/self.trange)",
         new="        h10 = t3 - 2 * t2 + 1"),
    dict(name="hermite_grad_h11", props=["C17"], file=I,
         old="        h11 = t3 - t2\n\n        return h00 * self.p0 + h10 * self.trange * self.m0 + h01 * self.p1 + h11 * self.trange * self.m1\n\n    def __repr__",
         new="        h11 = t3 - 2 * t2\n\n        return h00 * self.p0 + h10 * self.trange * self.m0 + h01 * self.p1 + h11 * self.trange * self.m1\n\n    def __repr__"),
]
