#!/venv/bin/python
"""appends a 'fixed' finding to known_findings.json and FINDINGS.txt
usage: tools/addfinding.py <Dnn> <Cnn> <commit> <replay-path> <what...>"""
import json, os, sys
HERE = os.path.dirname(os.path.dirname(os.path.abspath(__file__)))
fid, prop, commit, replay = sys.argv[1:5]
what = " ".join(sys.argv[5:])
p = os.path.join(HERE, "known_findings.json")
d = json.load(open(p))
assert not any(f["id"] == fid for f in d["findings"]), "id exists"
d["findings"].append(dict(id=fid, property=prop, status="fixed", commit=commit, what=what, replay=replay))
json.dump(d, open(p, "w"), indent=1)
with open(os.path.join(HERE, "FINDINGS.txt"), "a") as fh:
    fh.write("fixed: property={} {} {} ({})\n".format(prop, commit, what, replay))
print("added", fid)
