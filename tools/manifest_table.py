HOOK_COMMITS = []
NOT_APPLICABLE = {}
CHECKS = {
 "C17": dict(level="exploration", design_ref="DESIGN.md section 6 / C17",
   technique="exhaustive small-scope enumeration against bisect_left + Hypothesis-generated cubics against a longdouble reference",
   text="Every strictly increasing array of length 1..7 over a 9-point grid (two grids, five container kinds) with every query of the refined grid is compared with bisect_left, scalar and vector forms against each other; random arrays with 1-ulp spacings and random cubic Hermite pieces (either orientation, array-valued, three dtypes) are compared with a longdouble reference. The bisection part is exhaustive within its stated scope; the rest is sampled.",
   note="Trusts python's bisect module and numpy longdouble arithmetic as the reference; numpy back end only."),
}
