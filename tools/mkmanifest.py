#!/venv/bin/python
"""Writes /verif/MANIFEST.json from the table below (kept in one place so it is always valid)."""
import json, os, sys
HERE = os.path.dirname(os.path.dirname(os.path.abspath(__file__)))
sys.path.insert(0, HERE)
from tools.manifest_table import CHECKS, NOT_APPLICABLE, HOOK_COMMITS

props = [json.loads(l)["id"] for l in open(os.path.join(HERE, "properties.jsonl"))]
checks = []
for pid in props:
    if pid not in CHECKS:
        continue
    c = CHECKS[pid]
    checks.append(dict(
        property_id=pid,
        quick_cmd="./check {} --tier quick".format(pid),
        thorough_cmd="./check {} --tier thorough".format(pid),
        evidence_file="evidence/{}.json".format(pid),
        replay_cmd_template="./check {} --replay {{path}}".format(pid),
        engine="pbt",
        level_claimed=dict(category=c["level"], text=c["text"], design_ref=c["design_ref"]),
        level_note=c["note"],
        technique=c["technique"],
    ))
na = [dict(property_id=p, reason=NOT_APPLICABLE.get(p, "check not built yet in this session; no claim is made")) for p in props if p not in CHECKS]
man = dict(
    version=1,
    setup_cmd="sh ./setup.sh",
    hooks=dict(guard="DESOLVER_VERIF", enable="no source hooks: checks import /repo's working tree directly (PYTHONPATH=/repo) and observe through user callables and instance wrappers installed by the harness process",
               baseline_off_cmd="cd /repo && /venv/bin/python -m pytest -q -p no:cacheprovider --timeout=900 -n 16",
               source_commits=HOOK_COMMITS, add_only=True),
    engines=[dict(name="pbt", path="pbt/", serves_properties=[c["property_id"] for c in checks],
                  kind_free_text="Hypothesis-driven property-based testing with explicit oracles, exhaustive small-scope enumeration, fault enumeration; sharded over 16 processes")],
    checks=checks,
    not_applicable=na,
    notes="Exit 0 = held on everything explored (KNOWN-FINDING lines allowed), 1 = VIOLATION line(s), 2 = harness error / inconclusive. VERIF_SEED seeds every Hypothesis run. See DESIGN.md.",
)
json.dump(man, open(os.path.join(HERE, "MANIFEST.json"), "w"), indent=1)
try:
    import jsonschema
    jsonschema.validate(man, json.load(open("/root/.vp/MANIFEST.schema.json")))
    print("MANIFEST.json valid:", len(checks), "checks,", len(na), "not applicable")
except ImportError:
    print("written (jsonschema not available to validate)")
