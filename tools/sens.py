#!/venv/bin/python
"""Sensitivity protocol: apply seeded mutations (tools/mutations.py) one at a time to a scratch copy of
/repo/desolver (outside /repo and /verif, deleted afterwards) and run the quick check of the property
against it.  usage: tools/sens.py [-j N] [--tier quick] [ID-or-mutation-name ...]"""
import json, os, shutil, subprocess, sys, tempfile, time
from concurrent.futures import ThreadPoolExecutor
HERE = os.path.dirname(os.path.dirname(os.path.abspath(__file__)))
sys.path.insert(0, os.path.join(HERE, "tools"))
import mutations


def run_one(m, tier, nproc):
    d = tempfile.mkdtemp(prefix="vsens_")
    try:
        shutil.copytree("/repo/desolver", os.path.join(d, "desolver"), ignore=shutil.ignore_patterns("__pycache__", "tests"))
        path = os.path.join(d, m["file"])
        src = open(path).read()
        if src.count(m["old"]) != 1:
            return dict(m, result="BAD-MUTATION (old text occurs {} times)".format(src.count(m["old"])))
        open(path, "w").write(src.replace(m["old"], m["new"]))
        out = {}
        for pid in m["props"]:
            env = dict(os.environ, VERIF_REPO=d, VERIF_SCRATCH=os.path.join(d, "scratch"), VERIF_NPROC=str(nproc))
            t = time.time()
            p = subprocess.run([os.path.join(HERE, "check"), pid, "--tier", tier], env=env, capture_output=True, text=True)
            viol = [l for l in p.stdout.splitlines() if l.startswith("VIOLATION")]
            notes = [l for l in p.stdout.splitlines() if l.startswith("  # ")]
            out[pid] = dict(exit=p.returncode, violations=len(viol), first=(notes[0][:200] if notes else ""), wall=round(time.time() - t, 1))
        return dict(name=m["name"], props=m["props"], result=out)
    finally:
        shutil.rmtree(d, ignore_errors=True)


def main():
    args = sys.argv[1:]
    nj, tier = 4, "quick"
    if "-j" in args:
        i = args.index("-j"); nj = int(args[i + 1]); del args[i:i + 2]
    if "--tier" in args:
        i = args.index("--tier"); tier = args[i + 1]; del args[i:i + 2]
    sel = [m for m in mutations.MUTATIONS if not args or m["name"] in args or set(m["props"]) & set(args)]
    if args:
        sel = [dict(m, props=[p for p in m["props"] if p in args] or m["props"]) for m in sel]
    with ThreadPoolExecutor(nj) as ex:
        res = list(ex.map(lambda m: run_one(m, tier, max(2, 16 // nj)), sel))
    ok = True
    for r in res:
        if isinstance(r["result"], str):
            print("{:40s} {}".format(r["name"], r["result"])); ok = False; continue
        for pid, o in r["result"].items():
            caught = o["exit"] == 1 and o["violations"] > 0
            ok &= caught
            print("{:40s} {} {:7s} exit={} viol={} {:6.1f}s {}".format(r["name"], pid, "CAUGHT" if caught else "MISSED", o["exit"], o["violations"], o["wall"], o["first"]))
    return 0 if ok else 1


if __name__ == "__main__":
    sys.exit(main())
